#!/usr/bin/env python3
"""Confirm seeded defects and run the checks against them, in scratch worktrees outside /repo and /verif.

usage:
  run_seeded.py confirm <src_dir>   # src_dir/<ID>/<variant>/{patch.diff,demo.rs,meta.json}: confirm each one
                                    # (applies, suite passes, demo fails with / passes without) and copy the
                                    # confirmed ones to /verif/seeded/<ID>-<variant>/
  run_seeded.py silent <dir>        # dir/**.diff = behaviour-preserving refactors: apply each and expect ALL
                                    # quick checks to stay silent; writes /verif/seeded/benign_results.json
  run_seeded.py detect [names...]   # run `./check <ID>` (quick) against each seeded change; writes
                                    # /verif/seeded/results.json
options: -j N workers (default 4), --tier quick|thorough, --also C01,C03 | --also related (extra properties to run)
Every scratch worktree and its build output is removed when the worker is done with it.
"""
import concurrent.futures
import json
import os
import shutil
import subprocess
import sys
import time

VERIF = os.path.dirname(os.path.dirname(os.path.abspath(__file__)))
REPO = "/repo"
SCRATCH = "/tmp/vscratch"
ENV = dict(os.environ, CARGO_NET_OFFLINE="true")


def sh(cmd, cwd=None, env=None, timeout=3600):
    p = subprocess.run(cmd, cwd=cwd, env=env or ENV, stdout=subprocess.PIPE, stderr=subprocess.STDOUT, text=True, timeout=timeout)
    return p.returncode, p.stdout


def make_worktree(name):
    wt = os.path.join(SCRATCH, name)
    if os.path.exists(wt):
        sh(["git", "-C", REPO, "worktree", "remove", "--force", wt])
        shutil.rmtree(wt, ignore_errors=True)
    os.makedirs(SCRATCH, exist_ok=True)
    rc, out = sh(["git", "-C", REPO, "worktree", "add", "--detach", wt, "HEAD"])
    if rc != 0:
        raise RuntimeError(out)
    return wt


def drop_worktree(wt):
    sh(["git", "-C", REPO, "worktree", "remove", "--force", wt])
    shutil.rmtree(wt, ignore_errors=True)
    sh(["git", "-C", REPO, "worktree", "prune"])


def tests_pass(wt):
    rc, out = sh(["cargo", "test", "--workspace", "--offline"], cwd=wt)
    ok = rc == 0 and "157 passed" in out
    return ok, out[-1500:]


def demo_result(wt):
    rc, out = sh(["cargo", "test", "--offline", "--test", "demo"], cwd=wt)
    return rc == 0, out[-1500:]


def confirm_one(src, name):
    wt = make_worktree("confirm-" + name)
    res = {"name": name}
    try:
        patch = os.path.join(src, "patch.diff")
        rc, out = sh(["git", "apply", "--check", patch], cwd=wt)
        if rc != 0:
            # try with reduced context (the tree moved on since the patch was written)
            rc, out = sh(["git", "apply", "--check", "-C1", patch], cwd=wt)
            res["apply_mode"] = "-C1"
        if rc != 0:
            res["error"] = "patch does not apply: " + out[-400:]
            return res
        args = ["git", "apply"] + (["-C1"] if res.get("apply_mode") else []) + [patch]
        sh(args, cwd=wt)
        ok, out = tests_pass(wt)
        res["suite_passes_with_change"] = ok
        os.makedirs(os.path.join(wt, "tests"), exist_ok=True)
        shutil.copy(os.path.join(src, "demo.rs"), os.path.join(wt, "tests", "demo.rs"))
        ok_with, out_with = demo_result(wt)
        res["demo_fails_with_change"] = not ok_with
        sh(["git", "checkout", "--", "src"], cwd=wt)
        ok_without, out_without = demo_result(wt)
        res["demo_passes_without_change"] = ok_without
        res["confirmed"] = bool(res["suite_passes_with_change"] and res["demo_fails_with_change"] and res["demo_passes_without_change"])
        if not res["confirmed"]:
            res["log"] = (out if not res["suite_passes_with_change"] else out_with if ok_with else out_without)[-800:]
        # refresh the patch against the current HEAD so that it applies cleanly later
        if res["confirmed"] and res.get("apply_mode"):
            sh(args, cwd=wt)
            rc, diff = sh(["git", "diff", "--", "src"], cwd=wt)
            res["refreshed_patch"] = diff
    finally:
        drop_worktree(wt)
    return res


def cmd_confirm(src_dir, jobs):
    todo = []
    for pid in sorted(os.listdir(src_dir)):
        d = os.path.join(src_dir, pid)
        if not os.path.isdir(d) or not pid.startswith("C"):
            continue
        for var in sorted(os.listdir(d)):
            sd = os.path.join(d, var)
            if os.path.exists(os.path.join(sd, "patch.diff")):
                todo.append((sd, "%s-%s" % (pid, var)))
    results = []
    with concurrent.futures.ThreadPoolExecutor(jobs) as ex:
        futs = {ex.submit(confirm_one, sd, name): (sd, name) for sd, name in todo}
        for f in concurrent.futures.as_completed(futs):
            sd, name = futs[f]
            try:
                r = f.result()
            except Exception as e:  # noqa
                r = {"name": name, "error": repr(e)}
            results.append(r)
            print(name, "confirmed" if r.get("confirmed") else "NOT CONFIRMED: %s" % {k: v for k, v in r.items() if k not in ("name", "refreshed_patch")}, flush=True)
            if r.get("confirmed"):
                dst = os.path.join(VERIF, "seeded", name)
                os.makedirs(dst, exist_ok=True)
                if r.get("refreshed_patch"):
                    with open(os.path.join(dst, "patch.diff"), "w") as fo:
                        fo.write(r["refreshed_patch"])
                else:
                    shutil.copy(os.path.join(sd, "patch.diff"), os.path.join(dst, "patch.diff"))
                shutil.copy(os.path.join(sd, "demo.rs"), os.path.join(dst, "demo.rs"))
                meta = {}
                try:
                    meta = json.load(open(os.path.join(sd, "meta.json")))
                except Exception:  # noqa
                    pass
                meta["property"] = name.split("-")[0]
                meta["variant"] = name.split("-", 1)[1]
                meta["confirmed_by_me"] = {
                    "applied_to": subprocess.run(["git", "-C", REPO, "rev-parse", "--short", "HEAD"], stdout=subprocess.PIPE, text=True).stdout.strip(),
                    "ran": ["git apply patch.diff", "cargo test --workspace --offline -> 157 passed (with the change)",
                            "cargo test --offline --test demo -> FAILS with the change", "git checkout -- src; cargo test --offline --test demo -> passes"],
                }
                json.dump(meta, open(os.path.join(dst, "meta.json"), "w"), ensure_ascii=False, indent=1)
    return results


def apply_patch(wt, patch):
    """git apply, falling back to reduced context / 3-way when the tree has moved on since the patch was written"""
    for extra in ([], ["-C1"], ["--3way"]):
        rc, out = sh(["git", "apply"] + extra + [patch], cwd=wt)
        if rc == 0:
            return 0, " ".join(extra)
    return rc, out


RELATED = {
    "C01": ["C03", "C15", "C11"], "C02": ["C15", "C11", "C05"], "C03": ["C01", "C10", "C09"], "C04": ["C12", "C08", "C05"],
    "C05": ["C12", "C02", "C14"], "C06": ["C07", "C01", "C16"], "C07": ["C06", "C01"], "C08": ["C04", "C15"],
    "C09": ["C03", "C10"], "C10": ["C03", "C09", "C01"], "C11": ["C01", "C02"], "C12": ["C04", "C05", "C16"],
    "C13": ["C12", "C05"], "C14": ["C16", "C01"], "C15": ["C01", "C02", "C08"], "C16": ["C12", "C14"], "C17": ["C06", "C14"],
}


def detect_one(name, tier, also):
    if also == ["related"]:
        also = RELATED.get(name.split("-")[0], [])
    d = os.path.join(VERIF, "seeded", name)
    pid = name.split("-")[0]
    try:
        pid = json.load(open(os.path.join(d, "meta.json"))).get("property") or pid
    except Exception:  # noqa
        pass
    wt = make_worktree("detect-" + name)
    build = os.path.join(SCRATCH, "build-" + name)
    res = {"name": name, "property": pid, "checks": {}}
    try:
        rc, out = apply_patch(wt, os.path.join(d, "patch.diff"))
        if rc != 0:
            res["error"] = "patch does not apply: " + out[-300:]
            return res
        env = dict(ENV, VERIF_REPO=wt, VERIF_BUILD_DIR=build)
        # reuse the main build cache when present: copy nothing, a cold build is ~40 s
        for p in [pid] + [a for a in also if a != pid]:
            t0 = time.time()
            rc, out = sh([os.path.join(VERIF, "check"), p, "--tier", tier], cwd=VERIF, env=env, timeout=7200)
            viol = [l for l in out.splitlines() if l.startswith("VIOLATION") or l.startswith("  what:")]
            res["checks"][p] = {"exit": rc, "detected": rc == 1, "wall_s": round(time.time() - t0, 1), "lines": viol[:6]}
            if rc not in (0, 1):
                res["checks"][p]["tail"] = out[-600:]
    finally:
        drop_worktree(wt)
        shutil.rmtree(build, ignore_errors=True)
        # the replays written for a mutant are not findings about /repo
    return res


def cmd_detect(names, jobs, tier, also):
    sdir = os.path.join(VERIF, "seeded")
    if not names:
        names = sorted(n for n in os.listdir(sdir) if os.path.exists(os.path.join(sdir, n, "patch.diff")))
    results = {}
    rpath = os.path.join(sdir, "results.json")
    if os.path.exists(rpath):
        try:
            results = json.load(open(rpath))
        except Exception:  # noqa
            results = {}
    with concurrent.futures.ThreadPoolExecutor(jobs) as ex:
        futs = {ex.submit(detect_one, n, tier, also): n for n in names}
        for f in concurrent.futures.as_completed(futs):
            n = futs[f]
            try:
                r = f.result()
            except Exception as e:  # noqa
                r = {"name": n, "error": repr(e)}
            key = n if tier == "quick" else n + "@" + tier
            prev = results.get(key, {})
            if prev.get("checks") and r.get("checks"):
                merged = dict(prev["checks"])
                merged.update(r["checks"])
                r["checks"] = merged
            results[key] = r
            own = r.get("checks", {}).get(r.get("property"), {})
            print(n, tier, "DETECTED" if own.get("detected") else "MISSED/ERR %s" % (r.get("error") or own), {k: v["detected"] for k, v in r.get("checks", {}).items()}, flush=True)
            try:
                on_disk = json.load(open(rpath))
            except Exception:  # noqa
                on_disk = {}
            on_disk[key] = results[key]
            results = on_disk
            json.dump(results, open(rpath, "w"), ensure_ascii=False, indent=1, sort_keys=True)
    return results


ALL_IDS = ["C%02d" % i for i in range(1, 18)]


def silent_one(diff, name, ids):
    """apply a behaviour-preserving refactor and expect every check to stay silent (exit 0)"""
    wt = make_worktree("silent-" + name)
    build = os.path.join(SCRATCH, "build-silent-" + name)
    res = {"name": name, "alarms": {}, "errors": {}}
    try:
        rc, out = apply_patch(wt, diff)
        if rc != 0:
            res["error"] = "patch does not apply: " + out[-300:]
            return res
        ok, out = tests_pass(wt)
        res["suite_passes"] = ok
        env = dict(ENV, VERIF_REPO=wt, VERIF_BUILD_DIR=build)
        for p in ids:
            rc, out = sh([os.path.join(VERIF, "check"), p, "--tier", "quick"], cwd=VERIF, env=env, timeout=7200)
            if rc == 1:
                res["alarms"][p] = [l for l in out.splitlines() if l.startswith("VIOLATION") or l.startswith("  what:")][:6]
            elif rc != 0:
                res["errors"][p] = out[-500:]
    finally:
        drop_worktree(wt)
        shutil.rmtree(build, ignore_errors=True)
    return res


def cmd_silent(src_dir, jobs, ids):
    src_dir = os.path.abspath(src_dir)
    todo = []
    for root, _, files in os.walk(src_dir):
        for f in sorted(files):
            if f.endswith(".diff"):
                todo.append((os.path.join(root, f), os.path.basename(root) + "-" + f[:-5]))
    out_path = os.path.join(VERIF, "seeded", "benign_results.json")
    results = {}
    if os.path.exists(out_path):
        try:
            results = json.load(open(out_path))
        except Exception:  # noqa
            results = {}
    with concurrent.futures.ThreadPoolExecutor(jobs) as ex:
        futs = {ex.submit(silent_one, d, n, ids): n for d, n in todo}
        for f in concurrent.futures.as_completed(futs):
            n = futs[f]
            try:
                r = f.result()
            except Exception as e:  # noqa
                r = {"name": n, "error": repr(e)}
            results[n] = r
            print(n, "SILENT" if not r.get("alarms") and not r.get("errors") and not r.get("error") else "ALARM/ERR %s" % {k: v for k, v in r.items() if k != "name"}, flush=True)
            json.dump(results, open(out_path, "w"), ensure_ascii=False, indent=1, sort_keys=True)


def main():
    args = sys.argv[1:]
    jobs, tier, also = 4, "quick", []
    rest = []
    i = 0
    while i < len(args):
        if args[i] == "-j":
            jobs = int(args[i + 1]); i += 1
        elif args[i] == "--tier":
            tier = args[i + 1]; i += 1
        elif args[i] == "--also":
            also = args[i + 1].split(","); i += 1
        else:
            rest.append(args[i])
        i += 1
    if not rest:
        print(__doc__); sys.exit(2)
    if rest[0] == "confirm":
        cmd_confirm(rest[1], jobs)
    elif rest[0] == "silent":
        cmd_silent(rest[1], jobs, also or ALL_IDS)
    elif rest[0] == "detect":
        cmd_detect(rest[1:], jobs, tier, also)
    else:
        print(__doc__); sys.exit(2)


if __name__ == "__main__":
    main()
