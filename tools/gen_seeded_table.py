#!/usr/bin/env python3
"""Regenerate the seeded-change table of DESIGN.md (between the seeded-table markers) from
seeded/*/meta.json and seeded/results.json."""
import json, os, re
V = os.path.dirname(os.path.dirname(os.path.abspath(__file__)))
res = json.load(open(os.path.join(V, "seeded", "results.json")))


def cell(s, n):
    s = re.sub(r"\s+", " ", s or "").replace("|", "/")
    return s[:n]


rows = ["| seeded change | what was changed | what it needs to manifest | caught by quick check |", "|---|---|---|---|"]
names = sorted(d for d in os.listdir(os.path.join(V, "seeded")) if os.path.exists(os.path.join(V, "seeded", d, "meta.json")))
n_det = 0
for n in names:
    m = json.load(open(os.path.join(V, "seeded", n, "meta.json")))
    r = res.get(n, {})
    pid = m.get("property") or n.split("-")[0]
    checks = r.get("checks", {})
    own = checks.get(pid, {}).get("detected")
    others = sorted(k for k, v in checks.items() if k != pid and v.get("detected"))
    if n == "S-unsafe-guard":
        verdict = "yes (C04 quick: process death caught by the crash journal; thorough: Miri UB report + libFuzzer crash)"
        n_det += 1
    elif m.get("outside_property") and not own:
        verdict = "not claimed - " + m["outside_property"]
        n_out = globals().get("n_out", 0) + 1
        globals()["n_out"] = n_out
    elif own:
        verdict = "yes" + (" (also " + ", ".join(others) + ")" if others else "")
        n_det += 1
    else:
        verdict = "NO" + (" (but " + ", ".join(others) + ")" if others else "")
    rows.append("| %s | %s | %s | %s |" % (n, cell(m.get("summary"), 150), cell(m.get("needs"), 130), verdict))
table = "\n".join(rows)
p = os.path.join(V, "DESIGN.md")
s = open(p, encoding="utf-8").read()
b, e = "<!-- seeded-table:begin -->", "<!-- seeded-table:end -->"
if b in s:
    s = s[: s.index(b) + len(b)] + "\n" + table + "\n" + s[s.index(e):]
else:
    i = s.index("| seeded change |")
    j = s.index("\n\n", i)
    s = s[:i] + b + "\n" + table + "\n" + e + s[j:]
open(p, "w", encoding="utf-8").write(s)
print("%d changes, %d detected by their own property's quick check, %d outside the property as stated" % (len(names), n_det, globals().get("n_out", 0)))
