#!/bin/bash
# run every quick check on the unchanged tree at the given seeds; print one line per check; exit 1 on any alarm
# usage: tools/silence.sh 0 1 7
cd "$(dirname "$0")/.."
rc=0
for seed in "$@"; do
  for i in 01 02 03 04 05 06 07 08 09 10 11 12 13 14 15 16 17; do
    out=$(VERIF_SEED=$seed ./check C$i --tier quick 2>&1); e=$?
    line=$(echo "$out" | grep -E "quick seed=" | tail -1)
    echo "seed=$seed exit=$e $line"
    if [ $e -ne 0 ]; then rc=1; echo "$out" | grep -E "VIOLATION|what:|HARNESS" | head -6; fi
  done
done
exit $rc
