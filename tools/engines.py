"""Sanitizer engines of the thorough tier (C04, C05, C12): Miri, cargo-fuzz (libFuzzer + ASan), valgrind memcheck.

Every engine returns a dict {engine, status, ...}; status is three-valued:
  "clean"        nothing reported on what was executed
  "violation"    a report that names code of the library (list under "reports", each with a witness input)
  "inconclusive" the engine could not run / timed out / reported something that could not be attributed
An unavailable engine never fails a check: the native monitors decide alone and the evidence says so.
"""
import glob
import json
import os
import re
import shutil
import subprocess
import time

ENV_OFFLINE = {"CARGO_NET_OFFLINE": "true"}


def _run(cmd, env=None, timeout=None, cwd=None):
    try:
        p = subprocess.run(cmd, env=env, cwd=cwd, stdout=subprocess.PIPE, stderr=subprocess.PIPE, text=True, timeout=timeout, errors="replace")
        return p.returncode, p.stdout, p.stderr
    except subprocess.TimeoutExpired as e:
        return "timeout", (e.stdout or b"").decode("utf-8", "replace") if isinstance(e.stdout, bytes) else (e.stdout or ""), (e.stderr or b"").decode("utf-8", "replace") if isinstance(e.stderr, bytes) else (e.stderr or "")
    except OSError as e:
        return "oserror", "", str(e)


def _journal(path):
    try:
        with open(path, "rb") as f:
            data = f.read()
        header, _, rest = data.partition(b"\n")
        n = int(header)
        if n == 0:
            return None
        body = rest[:n].decode("utf-8", "replace")
        label, _, inp = body.partition("\x01")
        return {"label": label, "input": inp}
    except (OSError, ValueError):
        return None


def gen_inputs(binary, out_dir, seed, nshards, per_shard):
    env = dict(os.environ, VERIF_SANIT_INPUTS=str(per_shard))
    os.makedirs(out_dir, exist_ok=True)
    procs = [subprocess.Popen([binary, "SANIT-GEN", "--seed", str(seed), "--shard", "%d/%d" % (i, nshards), "--out", out_dir],
                              env=env, stdout=subprocess.DEVNULL, stderr=subprocess.DEVNULL) for i in range(nshards)]
    for p in procs:
        p.wait()
    return [os.path.join(out_dir, "sanit-inputs-%d.json" % i) for i in range(nshards)]


def run_miri(binary, build, out_dir, seed, nshards=16, per_shard=40, budget_s=1200):
    t0 = time.time()
    res = {"engine": "miri", "status": "inconclusive", "inputs": 0, "reports": [], "notes": []}
    crate = os.path.join(build, "crate", "Cargo.toml")
    mdir = os.path.join(out_dir, "miri")
    inputs = gen_inputs(binary, mdir, seed, nshards, per_shard)
    env = dict(os.environ)
    env.update(ENV_OFFLINE)
    env["CARGO_TARGET_DIR"] = os.path.join(build, "miri-target")
    env["MIRIFLAGS"] = "-Zmiri-disable-isolation"
    base = ["cargo", "+nightly", "miri", "run", "--offline", "--manifest-path", crate, "--"]
    rc, out, err = _run(base + ["merge-fps"], env=env, timeout=900)
    if rc != 0:
        res["notes"].append("miri is not usable here (warm-up exit %s): %s" % (rc, (err or "")[-300:]))
        res["wall_s"] = round(time.time() - t0, 1)
        return res
    procs = []
    for i in range(nshards):
        e = dict(env, VERIF_SANIT_FILE=inputs[i])
        procs.append(subprocess.Popen(base + ["SANIT", "--seed", str(seed), "--shard", "%d/%d" % (i, nshards), "--out", mdir],
                                      env=e, stdout=subprocess.PIPE, stderr=subprocess.PIPE, text=True, errors="replace"))
    clean = 0
    for i, p in enumerate(procs):
        try:
            out, err = p.communicate(timeout=max(10, budget_s - (time.time() - t0)))
            rc = p.returncode
        except subprocess.TimeoutExpired:
            p.kill()
            out, err = p.communicate()
            rc = "timeout"
        rpath = os.path.join(mdir, "shard-%d.json" % i)
        if rc == 0 and os.path.exists(rpath):
            r = json.load(open(rpath, encoding="utf-8"))
            res["inputs"] += r["evaluations"]
            clean += 1
            for v in r["violations"]:
                res["reports"].append({"what": "panic under Miri: " + v["what"], "detail": v["detail"]})
        elif rc == "timeout":
            res["notes"].append("miri shard %d did not finish within the budget" % i)
        else:
            j = _journal(os.path.join(mdir, "journal-%d.txt" % i))
            m = re.search(r"error: (Undefined Behavior[^\n]*|[^\n]*memory leaked[^\n]*|unsupported operation[^\n]*)", err or "")
            if m and not m.group(1).startswith("unsupported"):
                frames = [l.strip() for l in (err or "").splitlines() if "narsese" in l or "/repo/" in l or "src/" in l][:6]
                res["reports"].append({
                    "what": "Miri: %s while exercising %r" % (m.group(1), j["input"] if j else "?"),
                    "detail": {"journal": True, "label": (j or {}).get("label", "SANIT|ascii"), "input": (j or {}).get("input", ""), "engine": "miri",
                               "miri_error": m.group(1), "frames": frames},
                })
            else:
                res["notes"].append("miri shard %d exit %s: %s" % (i, rc, (err or "")[-300:].replace("\n", " | ")))
    if res["reports"]:
        res["status"] = "violation"
    elif clean == nshards:
        res["status"] = "clean"
    res["shards_clean"] = clean
    res["wall_s"] = round(time.time() - t0, 1)
    return res


def run_valgrind(binary, out_dir, seed, nshards=16, per_shard=300, budget_s=900):
    t0 = time.time()
    res = {"engine": "valgrind-memcheck", "status": "inconclusive", "inputs": 0, "reports": [], "notes": []}
    if not shutil.which("valgrind"):
        res["notes"].append("valgrind not installed")
        return res
    vdir = os.path.join(out_dir, "vg")
    inputs = gen_inputs(binary, vdir, seed + 1000, nshards, per_shard)
    procs = []
    for i in range(nshards):
        e = dict(os.environ, VERIF_SANIT_FILE=inputs[i], VERIF_CALL_LIMIT_S="600")
        log = os.path.join(vdir, "vg-%d.log" % i)
        procs.append(subprocess.Popen(["valgrind", "-q", "--error-exitcode=9", "--log-file=" + log, binary, "SANIT", "--seed", str(seed), "--shard", "%d/%d" % (i, nshards), "--out", vdir],
                                      env=e, stdout=subprocess.DEVNULL, stderr=subprocess.PIPE, text=True, errors="replace"))
    clean = 0
    for i, p in enumerate(procs):
        try:
            _, err = p.communicate(timeout=max(10, budget_s - (time.time() - t0)))
            rc = p.returncode
        except subprocess.TimeoutExpired:
            p.kill()
            p.communicate()
            rc = "timeout"
        log = ""
        try:
            log = open(os.path.join(vdir, "vg-%d.log" % i), errors="replace").read()
        except OSError:
            pass
        rpath = os.path.join(vdir, "shard-%d.json" % i)
        if rc == 0 and os.path.exists(rpath):
            r = json.load(open(rpath, encoding="utf-8"))
            res["inputs"] += r["evaluations"]
            clean += 1
            for v in r["violations"]:
                res["reports"].append({"what": "panic under valgrind: " + v["what"], "detail": v["detail"]})
        elif rc == 9 or "Invalid " in log or "uninitialised" in log:
            j = _journal(os.path.join(vdir, "journal-%d.txt" % i))
            if "narsese" in log:
                first = next((l for l in log.splitlines() if "Invalid" in l or "uninitialised" in l or "Conditional" in l), "memcheck error")
                res["reports"].append({
                    "what": "valgrind memcheck: %s (last journaled input %r)" % (first.strip(), j["input"] if j else "?"),
                    "detail": {"journal": True, "label": (j or {}).get("label", "SANIT|ascii"), "input": (j or {}).get("input", ""), "engine": "valgrind", "log": log[-1500:]},
                })
            else:
                res["notes"].append("valgrind shard %d reported errors without a narsese frame" % i)
        elif rc == "timeout":
            res["notes"].append("valgrind shard %d did not finish within the budget" % i)
        else:
            res["notes"].append("valgrind shard %d exit %s" % (i, rc))
    if res["reports"]:
        res["status"] = "violation"
    elif clean == nshards:
        res["status"] = "clean"
    res["shards_clean"] = clean
    res["wall_s"] = round(time.time() - t0, 1)
    return res


def run_fuzz(binary, verif, repo, build, target, seconds, replay_native):
    """cargo-fuzz (libFuzzer + ASan). `replay_native(fmt_index, text)` -> 'reproduced' | other: re-runs an artifact in the native harness."""
    t0 = time.time()
    res = {"engine": "libfuzzer+asan:" + target, "status": "inconclusive", "reports": [], "notes": [], "executions": 0}
    fdir = os.path.join(build, "fuzz")
    os.makedirs(fdir, exist_ok=True)
    with open(os.path.join(verif, "fuzz", "Cargo.toml.in"), encoding="utf-8") as f:
        manifest = f.read().replace("@REPO@", repo).replace("@VERIF@", verif)
    mpath = os.path.join(fdir, "Cargo.toml")
    if not os.path.exists(mpath) or open(mpath, encoding="utf-8").read() != manifest:
        with open(mpath, "w", encoding="utf-8") as f:
            f.write(manifest)
    env = dict(os.environ)
    env.update(ENV_OFFLINE)
    env["CARGO_TARGET_DIR"] = os.path.join(build, "fuzz-target")
    rc, out, err = _run(["cargo", "+nightly", "fuzz", "build", "--fuzz-dir", fdir, target], env=env, timeout=1500, cwd=fdir)
    if rc != 0:
        res["notes"].append("cargo fuzz build failed (exit %s): %s" % (rc, (err or "")[-400:]))
        res["wall_s"] = round(time.time() - t0, 1)
        return res
    corpus = os.path.join(fdir, "corpus", target)
    if not os.path.isdir(corpus) or len(os.listdir(corpus)) < 50:
        _run([binary, "fuzz-corpus", corpus, "400"], timeout=120)
    dict_path = os.path.join(fdir, "dict.txt")
    rc, out, _ = _run([binary, "fuzz-dict"], timeout=60)
    if rc == 0:
        with open(dict_path, "w", encoding="utf-8") as f:
            f.write(out)
    art = os.path.join(fdir, "artifacts", target)
    shutil.rmtree(art, ignore_errors=True)
    os.makedirs(art, exist_ok=True)
    cmd = ["cargo", "+nightly", "fuzz", "run", "--fuzz-dir", fdir, target, "--",
           "-max_total_time=%d" % seconds, "-timeout=10", "-max_len=2048", "-len_control=0", "-fork=16", "-ignore_crashes=1", "-ignore_timeouts=1", "-ignore_ooms=1",
           "-dict=" + dict_path, "-artifact_prefix=" + art + "/"]
    rc, out, err = _run(cmd, env=env, timeout=seconds + 600, cwd=fdir)
    text = (out or "") + (err or "")
    m = re.findall(r"#(\d+): cov: (\d+) ft: (\d+) corp: (\d+)", text)
    if m:
        res["executions"] = int(m[-1][0])
        res["coverage_edges"] = int(m[-1][1])
        res["corpus"] = int(m[-1][3])
    if rc == "timeout":
        res["notes"].append("the fuzzer did not stop within its time budget")
    arts = sorted(glob.glob(os.path.join(art, "*")))
    res["artifacts"] = len(arts)
    seen = set()
    for a in arts[:40]:
        kind = os.path.basename(a).split("-")[0]
        try:
            data = open(a, "rb").read()
        except OSError:
            continue
        if not data:
            continue
        fi = data[0] % 3
        try:
            s = data[1:].decode("utf-8")
        except UnicodeDecodeError:
            continue
        status = replay_native(fi, s)
        if status in ("reproduced", "crash", "hang"):
            key = (kind, fi, status)
            if key in seen and len(res["reports"]) > 6:
                continue
            seen.add(key)
            res["reports"].append({"what": "libFuzzer %s artifact reproduces in the native harness (%s)" % (kind, status),
                                   "detail": {"journal": True, "label": "%s|%s" % ("C05" if target == "lexical_total" else "C04", ["ascii", "latex", "han"][fi]), "input": s, "engine": "libfuzzer"}})
        elif kind == "crash":
            # not reproducible natively: an assertion of the fuzz target (C12 walk) or a sanitizer-only report
            rc2, o2, e2 = _run(["cargo", "+nightly", "fuzz", "run", "--fuzz-dir", fdir, target, a, "--", "-runs=1"], env=env, timeout=300, cwd=fdir)
            t2 = (o2 or "") + (e2 or "")
            if "AddressSanitizer" in t2 or "panicked at" in t2:
                first = next((l for l in t2.splitlines() if "AddressSanitizer" in l or "panicked at" in l), "")
                nxt = t2.split(first, 1)[1][:300] if first else ""
                res["reports"].append({"what": "libFuzzer crash artifact: %s %s" % (first.strip(), nxt.strip().splitlines()[0] if nxt.strip() else ""),
                                       "detail": {"journal": True, "label": "C12|%s" % ["ascii", "latex", "han"][fi], "input": s, "engine": "libfuzzer", "log": t2[-1200:]}})
            else:
                res["notes"].append("crash artifact %s did not reproduce" % os.path.basename(a))
        else:
            res["notes"].append("%s artifact %s did not reproduce in the native harness (inconclusive)" % (kind, os.path.basename(a)))
    if res["reports"]:
        res["status"] = "violation"
    elif res["executions"] > 0 and rc in (0, "timeout"):
        res["status"] = "clean"
    else:
        res["notes"].append("fuzzer exit %s: %s" % (rc, text[-300:].replace("\n", " | ")))
    res["wall_s"] = round(time.time() - t0, 1)
    return res
