#!/usr/bin/env python3
"""Validate evidence/*.json against the evidence schema and MANIFEST.json against its schema."""
import glob, json, sys
try:
    import jsonschema
except ImportError:
    print("jsonschema not available in this python; use python3-vt"); sys.exit(2)
es = json.load(open("/root/.vp/EVIDENCE.schema.json"))
ok = True
for p in sorted(glob.glob("/verif/evidence/*.json")):
    try:
        jsonschema.validate(json.load(open(p)), es)
    except Exception as e:  # noqa
        ok = False
        print("INVALID", p, str(e)[:300])
jsonschema.validate(json.load(open("/verif/MANIFEST.json")), json.load(open("/root/.vp/MANIFEST.schema.json")))
print("ok" if ok else "FAILED")
sys.exit(0 if ok else 1)
