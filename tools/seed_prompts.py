#!/usr/bin/env python3
"""Write the prompts for one round of seeded-defect sub-agents (each sees only its property's text).
usage: seed_prompts.py <round dir, e.g. /tmp/seed5> <X1> <X2> <file with the round-specific extra text>"""
import json, os, sys
V = os.path.dirname(os.path.dirname(os.path.abspath(__file__)))
rd, x1, x2, extra_file = sys.argv[1:5]
t = open(os.path.join(V, "tools", "seed_prompt_template.txt")).read()
extra_t = open(extra_file).read()
for l in open(os.path.join(V, "properties.jsonl")):
    d = json.loads(l)
    pid = d["id"]
    prop = "%s - %s\n\n%s\n\nQuantifier: %s\n\nWhy the existing tests cannot settle it: %s\n\nRelevant files: %s\n" % (
        pid, d["title"], d["statement"], d["quantifier"]["text"], d["why_tests_cant"], ", ".join(d["anchors"]["files"]))
    prev = []
    for v in "ABCDEFGHIJKLMNOP":
        try:
            m = json.load(open(os.path.join(V, "seeded", "%s-%s" % (pid, v), "meta.json")))
            prev.append("- " + m.get("summary", "")[:260])
        except Exception:  # noqa
            pass
    if os.environ.get("SEED_STRICT"):  # round 8: the agent sees the property text only, nothing from /verif
        extra = "\n\n" + extra_t
    else:
      extra = "\n\nIMPORTANT - %d changes were already delivered for this property by other people; do NOT repeat them or close variants of them:\n%s\n\n%s" % (len(prev), "\n".join(prev), extra_t)
    p = t.replace("@WT@", "%s/wt-%s" % (rd, pid)).replace("@OUT@", "%s/out/%s" % (rd, pid)).replace("@PROP@", prop + extra).replace("@X1@", x1).replace("@X2@", x2)
    open("%s/prompt-%s.txt" % (rd, pid), "w").write(p)
print("ok")
