#![no_main]
//! C04 (+C12): every entry point of the enum parser returns; accepted values are well-formed.
//! A panic aborts the process (libFuzzer crash artifact); memory errors are reported by ASan.
use libfuzzer_sys::fuzz_target;
use narsese::enum_narsese::{Budget, Narsese, Punctuation, Stamp, Truth};

mod common;
use common::*;

fuzz_target!(|data: &[u8]| {
    let Some((fi, s)) = decode(data) else { return };
    let f = &FORMATS[fi];
    match f.parse::<Narsese>(s) {
        Ok(v) => check_value(&v),
        Err(e) => {
            let _ = e.to_string();
        }
    }
    let _ = f.parse_chars::<Narsese>(s.chars().collect()).map_err(|e| e.to_string());
    let _ = f.parse::<Truth>(s).map_err(|e| e.to_string());
    let _ = f.parse::<Budget>(s).map_err(|e| e.to_string());
    let _ = f.parse::<Stamp>(s).map_err(|e| e.to_string());
    let _ = f.parse::<Punctuation>(s).map_err(|e| e.to_string());
    // the same input after a partial one, through the reused state
    let rs = f.parse_multi(["$0.5$ <A --> ", s, s]);
    assert_eq!(rs.len(), 3);
});
