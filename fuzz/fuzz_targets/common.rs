// shared by the fuzz targets: input decoding and the well-formedness walk (C12) of accepted values
use narsese::api::{GetBudget, GetTerm, GetTruth};
use narsese::conversion::string::impl_enum::format_instances::{FORMAT_ASCII, FORMAT_HAN, FORMAT_LATEX};
use narsese::conversion::string::impl_enum::NarseseFormat;
use narsese::conversion::string::typst_formatter::FormatterTypst;
use narsese::enum_narsese::{Budget, Narsese, Term, Truth};

pub static FORMATS: [NarseseFormat<&str>; 3] = [FORMAT_ASCII, FORMAT_LATEX, FORMAT_HAN];

/// byte 0 selects the format, the rest is the UTF-8 input (bounded: <= 512 chars)
pub fn decode(data: &[u8]) -> Option<(usize, &str)> {
    if data.is_empty() {
        return None;
    }
    let s = std::str::from_utf8(&data[1..]).ok()?;
    if s.chars().count() > 512 {
        return None;
    }
    Some(((data[0] % 3) as usize, s))
}

fn in01(x: f64) -> bool {
    0.0 <= x && x <= 1.0
}

fn walk(t: &Term) {
    match t {
        Term::Word(n) | Term::VariableIndependent(n) | Term::VariableDependent(n) | Term::VariableQuery(n) | Term::Operator(n) => {
            assert!(!n.is_empty(), "C12: empty atom name in an accepted value")
        }
        Term::Placeholder | Term::Interval(_) => {}
        Term::ImageExtension(i, v) | Term::ImageIntension(i, v) => {
            assert!(*i <= v.len(), "C12: image index {} > {} components", i, v.len());
            v.iter().for_each(walk)
        }
        other => {
            let kids = other.get_components();
            assert!(!kids.is_empty(), "C12: empty compound in an accepted value");
            kids.into_iter().for_each(walk)
        }
    }
}

pub fn check_value(v: &Narsese) {
    let term = match v {
        Narsese::Term(t) => t,
        Narsese::Sentence(s) => s.get_term(),
        Narsese::Task(k) => k.get_term(),
    };
    walk(term);
    let truth: Option<&Truth> = match v {
        Narsese::Term(_) => None,
        Narsese::Sentence(s) => s.get_truth(),
        Narsese::Task(k) => k.get_truth(),
    };
    match truth {
        Some(Truth::Single(f)) => assert!(in01(*f), "C12: truth out of range"),
        Some(Truth::Double(f, c)) => assert!(in01(*f) && in01(*c), "C12: truth out of range"),
        _ => {}
    }
    if let Narsese::Task(k) = v {
        match k.get_budget() {
            Budget::Empty => {}
            Budget::Single(p) => assert!(in01(*p), "C12: budget out of range"),
            Budget::Double(p, d) => assert!(in01(*p) && in01(*d), "C12: budget out of range"),
            Budget::Triple(p, d, q) => assert!(in01(*p) && in01(*d) && in01(*q), "C12: budget out of range"),
        }
    }
    for g in FORMATS.iter() {
        let _ = g.format_narsese(v);
    }
    match v {
        Narsese::Term(t) => {
            let _ = FormatterTypst.format(t);
        }
        Narsese::Sentence(s) => {
            let _ = FormatterTypst.format(s);
        }
        Narsese::Task(k) => {
            let _ = FormatterTypst.format(k);
        }
    }
}
