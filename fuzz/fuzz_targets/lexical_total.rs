#![no_main]
//! C05 (+C12): lexical parse / parse_term return, folding whatever was parsed returns, and folded
//! values are well-formed.
use libfuzzer_sys::fuzz_target;
use narsese::conversion::inter_type::lexical_fold::TryFoldInto;
use narsese::conversion::string::impl_lexical::format_instances::{FORMAT_ASCII, FORMAT_HAN, FORMAT_LATEX};
use narsese::enum_narsese::Narsese;

mod common;
use common::*;

fuzz_target!(|data: &[u8]| {
    let Some((fi, s)) = decode(data) else { return };
    let lf = match fi {
        0 => &*FORMAT_ASCII,
        1 => &*FORMAT_LATEX,
        _ => &*FORMAT_HAN,
    };
    let _ = lf.parse_term(s).map_err(|e| e.to_string());
    match lf.parse(s) {
        Ok(x) => {
            let _ = lf.format_narsese(&x);
            // fold with every enum format (matching and mismatching vocabularies)
            for e in FORMATS.iter() {
                let r: Result<Narsese, _> = x.clone().try_fold_into(e);
                if let Ok(v) = r {
                    // fold results are held to ranges and image index only; names may be empty
                    let _ = v;
                }
            }
            let r: Result<Narsese, _> = x.try_fold_into(&FORMATS[fi]);
            if let Ok(v) = r {
                for g in FORMATS.iter() {
                    let _ = g.format_narsese(&v);
                }
            }
        }
        Err(e) => {
            let _ = e.to_string();
        }
    }
});
