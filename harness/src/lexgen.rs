//! Generators and structural rendering for *lexical* Narsese values.
//! The vocabulary is read from the lexical format instance itself.

use crate::names::*;
use crate::rng::Rng;
use nar_dev_utils::{PrefixMatch, SuffixMatch};
use narsese::lexical::{Narsese as LexNarsese, Sentence as LexSentence, Task as LexTask, Term as LexTerm};

/// structural rendering (every field, every list in order) — the harness's own equality for lexical values
pub fn lex_term_canon(t: &LexTerm) -> String {
    match t {
        LexTerm::Atom { prefix, name } => format!("A({:?},{:?})", prefix, name),
        LexTerm::Compound { connecter, terms } => {
            format!("C({:?};{})", connecter, terms.iter().map(lex_term_canon).collect::<Vec<_>>().join(","))
        }
        LexTerm::Set { left_bracket, terms, right_bracket } => format!(
            "S({:?},{:?};{})",
            left_bracket,
            right_bracket,
            terms.iter().map(lex_term_canon).collect::<Vec<_>>().join(",")
        ),
        LexTerm::Statement { copula, subject, predicate } => {
            format!("T({:?};{},{})", copula, lex_term_canon(subject), lex_term_canon(predicate))
        }
    }
}
pub fn lex_sentence_canon(s: &LexSentence) -> String {
    format!("Sen({}|{:?}|{:?}|{:?})", lex_term_canon(&s.term), s.punctuation, s.stamp, s.truth)
}
pub fn lex_task_canon(t: &LexTask) -> String {
    format!("Task({:?}|{})", t.budget, lex_sentence_canon(&t.sentence))
}
pub fn lex_canon(n: &LexNarsese) -> String {
    match n {
        LexNarsese::Term(t) => format!("Term({})", lex_term_canon(t)),
        LexNarsese::Sentence(s) => lex_sentence_canon(s),
        LexNarsese::Task(t) => lex_task_canon(t),
    }
}

pub fn lex_size(t: &LexTerm) -> usize {
    match t {
        LexTerm::Atom { .. } => 1,
        LexTerm::Compound { terms, .. } | LexTerm::Set { terms, .. } => 1 + terms.iter().map(lex_size).sum::<usize>(),
        LexTerm::Statement { subject, predicate, .. } => 1 + lex_size(subject) + lex_size(predicate),
    }
}

pub fn lex_depth(t: &LexTerm) -> usize {
    match t {
        LexTerm::Atom { .. } => 1,
        LexTerm::Compound { terms, .. } | LexTerm::Set { terms, .. } => 1 + terms.iter().map(lex_depth).max().unwrap_or(0),
        LexTerm::Statement { subject, predicate, .. } => 1 + lex_depth(subject).max(lex_depth(predicate)),
    }
}

/// Vocabulary of one lexical format, enumerated from the instance.
pub struct Vocab {
    pub prefixes: Vec<String>,
    pub connecters: Vec<String>,
    pub copulas: Vec<String>,
    pub set_brackets: Vec<(String, String)>,
    pub punctuations: Vec<String>,
    /// (left, right) of every stamp form; enumerated stamps have an empty left part
    pub stamp_forms: Vec<(String, String)>,
}

impl Vocab {
    pub fn of(f: Fmt) -> Vocab {
        let l = f.l();
        Vocab {
            prefixes: l.atom.prefixes.iter_x_fixes().cloned().collect(),
            connecters: l.compound.connecters.iter_x_fixes().cloned().collect(),
            copulas: l.statement.copulas.iter_x_fixes().cloned().collect(),
            set_brackets: l.compound.set_brackets.prefix_terms().filter(|(a, b)| !a.is_empty() && !b.is_empty()).cloned().collect(),
            punctuations: l.sentence.punctuations.iter_x_fixes().cloned().collect(),
            stamp_forms: l.sentence.stamp_brackets.suffix_terms().cloned().collect(),
        }
    }
}

pub struct LexGen {
    pub fmt: Fmt,
    pub vocab: Vocab,
    pub names: Vec<String>,
    /// generate only arity-valid shapes (foldable): difference 2, negation 1, image with exactly one placeholder
    pub arity_valid: bool,
}

impl LexGen {
    pub fn new(fmt: Fmt, arity_valid: bool) -> LexGen {
        let mut names = safe_names(fmt);
        names.extend(near_keyword_names(fmt));
        LexGen { fmt, vocab: Vocab::of(fmt), names, arity_valid }
    }

    fn e(&self) -> &'static narsese::conversion::string::impl_enum::NarseseFormat<&'static str> {
        self.fmt.e()
    }

    pub fn atom(&self, rng: &mut Rng, allow_placeholder: bool) -> LexTerm {
        let e = self.e();
        let prefix = rng.pick(&self.vocab.prefixes).clone();
        if prefix == e.atom.prefix_placeholder {
            if allow_placeholder {
                return LexTerm::new_atom(prefix, "");
            }
            return LexTerm::new_atom("", rng.pick(&self.names).clone());
        }
        if prefix == e.atom.prefix_interval && self.arity_valid {
            return LexTerm::new_atom(prefix, format!("{}", rng.below(1000)));
        }
        LexTerm::new_atom(prefix, rng.pick(&self.names).clone())
    }

    pub fn term(&self, rng: &mut Rng, depth: usize) -> LexTerm {
        // bounded size: the lexical parser is quadratic in the input length, so values beyond a few
        // hundred nodes (thousands of characters) are regenerated smaller
        for _ in 0..4 {
            let t = self.term_unbounded(rng, depth);
            if lex_size(&t) <= 300 {
                return t;
            }
        }
        self.term_in(rng, depth.min(3), true)
    }

    fn term_unbounded(&self, rng: &mut Rng, depth: usize) -> LexTerm {
        if !self.arity_valid && rng.chance(1, 60) {
            // extreme profiles: a chain 20..80 deep, or 20..100 composites side by side
            if rng.chance(1, 2) {
                let mut t = self.atom(rng, false);
                for i in 0..rng.range(20, 80) {
                    t = match i % 3 {
                        0 => LexTerm::new_compound(rng.pick(&self.vocab.connecters).clone(), vec![t]),
                        1 => {
                            let (l, r) = rng.pick(&self.vocab.set_brackets).clone();
                            LexTerm::new_set(l, vec![t], r)
                        }
                        _ => LexTerm::new_statement(rng.pick(&self.vocab.copulas).clone(), t, self.atom(rng, false)),
                    };
                }
                return t;
            }
            let n = rng.range(20, 100);
            let kids: Vec<LexTerm> = (0..n).map(|_| self.term_in(rng, 2, true)).collect();
            return LexTerm::new_compound(rng.pick(&self.vocab.connecters).clone(), kids);
        }
        self.term_in(rng, depth, true)
    }

    fn term_in(&self, rng: &mut Rng, depth: usize, allow_placeholder: bool) -> LexTerm {
        if depth <= 1 || rng.chance(1, 4) {
            return self.atom(rng, allow_placeholder);
        }
        let e = self.e();
        match rng.below(10) {
            0..=4 => {
                let c = rng.pick(&self.vocab.connecters).clone();
                let n = if self.arity_valid {
                    if c == e.compound.connecter_negation {
                        1
                    } else if c == e.compound.connecter_difference_extension || c == e.compound.connecter_difference_intension {
                        2
                    } else {
                        rng.range(1, 4)
                    }
                } else {
                    if depth <= 2 && rng.chance(1, 40) { rng.range(7, 14) } else { rng.range(1, 6) }
                };
                let is_image = c == e.compound.connecter_image_extension || c == e.compound.connecter_image_intension;
                let mut terms: Vec<LexTerm> = (0..n).map(|_| self.term_in(rng, depth - 1, !(is_image && self.arity_valid))).collect();
                if is_image && self.arity_valid {
                    let pos = rng.below(terms.len() + 1);
                    terms.insert(pos, LexTerm::new_atom(e.atom.prefix_placeholder, ""));
                }
                LexTerm::new_compound(c, terms)
            }
            5..=6 => {
                let (l, r) = rng.pick(&self.vocab.set_brackets).clone();
                let n = rng.range(1, if self.arity_valid { 4 } else { 6 });
                LexTerm::new_set(l, (0..n).map(|_| self.term_in(rng, depth - 1, true)).collect(), r)
            }
            _ => {
                let c = rng.pick(&self.vocab.copulas).clone();
                LexTerm::new_statement(c, self.term_in(rng, depth - 1, true), self.term_in(rng, depth - 1, true))
            }
        }
    }

    fn number(&self, rng: &mut Rng) -> String {
        if rng.chance(1, 40) {
            // long digit strings (the lexical model does not interpret them)
            let n = rng.range(20, 90);
            let mut s = String::from(if rng.chance(1, 2) { "0." } else { "" });
            for _ in 0..n {
                s.push((b'0' + rng.below(10) as u8) as char);
            }
            return s;
        }
        match rng.below(8) {
            0 => "0".into(),
            1 => "1".into(),
            2 => "0.5".into(),
            3 => "1.0".into(),
            4 => "0.9".into(),
            5 => format!("0.{}", rng.below(1000)),
            6 => ".5".into(),
            _ => format!("0.{:02}", rng.below(100)),
        }
    }

    pub fn stamp(&self, rng: &mut Rng) -> String {
        if rng.chance(2, 5) {
            return String::new();
        }
        let (l, r) = rng.pick(&self.vocab.stamp_forms).clone();
        if l.is_empty() {
            // enumerated stamp: the whole text is the right part
            r
        } else {
            let body = match rng.below(6) {
                5 => {
                    let n = rng.range(20, 90);
                    let mut s = String::from(if rng.chance(1, 2) { "+" } else { "-" });
                    for _ in 0..n {
                        s.push((b'0' + rng.below(10) as u8) as char);
                    }
                    s
                }
                0 => "0".to_string(),
                1 => format!("-{}", rng.below(100)),
                2 => format!("+{}", rng.below(100)),
                3 => format!("{}", rng.next_u64() % 1_000_000_007),
                _ => format!("{}", rng.below(10)),
            };
            format!("{}{}{}", l, body, r)
        }
    }

    pub fn sentence(&self, rng: &mut Rng, depth: usize) -> LexSentence {
        let term = self.term(rng, depth);
        let punctuation = rng.pick(&self.vocab.punctuations).clone();
        let stamp = self.stamp(rng);
        let nt = if self.arity_valid { rng.below(3) } else if rng.chance(1, 30) { rng.range(5, 24) } else { rng.below(5) };
        let truth: Vec<String> = (0..nt).map(|_| self.number(rng)).collect();
        LexSentence::new(term, punctuation, stamp, truth)
    }

    pub fn task(&self, rng: &mut Rng, depth: usize) -> LexTask {
        let nb = if self.arity_valid { rng.below(4) } else if rng.chance(1, 30) { rng.range(6, 24) } else { rng.below(6) };
        let budget: Vec<String> = (0..nb).map(|_| self.number(rng)).collect();
        LexTask { budget, sentence: self.sentence(rng, depth) }
    }

    pub fn narsese(&self, rng: &mut Rng, depth: usize) -> LexNarsese {
        match rng.below(3) {
            0 => LexNarsese::Term(self.term(rng, depth)),
            1 => LexNarsese::Sentence(self.sentence(rng, depth)),
            _ => LexNarsese::Task(self.task(rng, depth)),
        }
    }
}

/// silence unused-import warnings for the suffix trait on formats without suffix use
#[allow(dead_code)]
fn _uses<T: SuffixMatch<(String, String)>>(_: &T) {}

// ---- JSON (replay files) ----
use crate::json::J;

pub fn lex_term_json(t: &LexTerm) -> J {
    match t {
        LexTerm::Atom { prefix, name } => J::obj().set("a", J::Arr(vec![J::from(prefix), J::from(name)])),
        LexTerm::Compound { connecter, terms } => J::obj().set("c", connecter).set("t", J::Arr(terms.iter().map(lex_term_json).collect())),
        LexTerm::Set { left_bracket, terms, right_bracket } => J::obj()
            .set("s", J::Arr(vec![J::from(left_bracket), J::from(right_bracket)]))
            .set("t", J::Arr(terms.iter().map(lex_term_json).collect())),
        LexTerm::Statement { copula, subject, predicate } => J::obj().set("st", copula).set("t", J::Arr(vec![lex_term_json(subject), lex_term_json(predicate)])),
    }
}
pub fn lex_term_from_json(j: &J) -> Option<LexTerm> {
    let strs = |j: &J| -> Option<Vec<String>> { j.as_arr()?.iter().map(|x| x.as_str().map(|s| s.to_string())).collect() };
    let kids = |j: &J| -> Option<Vec<LexTerm>> { j.get("t")?.as_arr()?.iter().map(lex_term_from_json).collect() };
    if let Some(a) = j.get("a") {
        let v = strs(a)?;
        return Some(LexTerm::new_atom(v.first()?.clone(), v.get(1)?.clone()));
    }
    if let Some(c) = j.get("c") {
        return Some(LexTerm::new_compound(c.as_str()?, kids(j)?));
    }
    if let Some(s) = j.get("s") {
        let v = strs(s)?;
        return Some(LexTerm::new_set(v.first()?.clone(), kids(j)?, v.get(1)?.clone()));
    }
    if let Some(c) = j.get("st") {
        let mut k = kids(j)?;
        let p = k.pop()?;
        let s = k.pop()?;
        return Some(LexTerm::new_statement(c.as_str()?, s, p));
    }
    None
}
pub fn lex_json(n: &LexNarsese) -> J {
    let sj = |s: &LexSentence| {
        J::obj()
            .set("term", lex_term_json(&s.term))
            .set("p", &s.punctuation)
            .set("stamp", &s.stamp)
            .set("truth", J::Arr(s.truth.iter().map(J::from).collect()))
    };
    match n {
        LexNarsese::Term(t) => J::obj().set("kind", "term").set("term", lex_term_json(t)),
        LexNarsese::Sentence(s) => J::obj().set("kind", "sentence").set("sentence", sj(s)),
        LexNarsese::Task(t) => J::obj().set("kind", "task").set("budget", J::Arr(t.budget.iter().map(J::from).collect())).set("sentence", sj(&t.sentence)),
    }
}
pub fn lex_from_json(j: &J) -> Option<LexNarsese> {
    let strs = |j: &J| -> Option<Vec<String>> { j.as_arr()?.iter().map(|x| x.as_str().map(|s| s.to_string())).collect() };
    let sent = |s: &J| -> Option<LexSentence> {
        Some(LexSentence::new(lex_term_from_json(s.get("term")?)?, s.get("p")?.as_str()?, s.get("stamp")?.as_str()?, strs(s.get("truth")?)?))
    };
    match j.get("kind")?.as_str()? {
        "term" => Some(LexNarsese::Term(lex_term_from_json(j.get("term")?)?)),
        "sentence" => Some(LexNarsese::Sentence(sent(j.get("sentence")?)?)),
        "task" => Some(LexNarsese::Task(LexTask { budget: strs(j.get("budget")?)?, sentence: sent(j.get("sentence")?)? })),
        _ => None,
    }
}
