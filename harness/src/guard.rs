//! Observation of one call of the code under test: panic capture, crash journal, hang watchdog.
//!
//! * `observe(f)` runs `f` under `catch_unwind` with a silenced panic hook that records location
//!   and message.
//! * `Journal` keeps the *current* input on disk (overwritten in place, written before the call),
//!   so that if the process dies (abort, stack overflow, signal) the driver can read the witness.
//! * a watchdog thread aborts the process with exit code 3 when one call runs longer than the
//!   limit; the journal then names the suspect input and the driver re-runs it in isolation.

use std::cell::RefCell;
use std::fs::{File, OpenOptions};
use std::os::unix::fs::FileExt;
use std::panic::{catch_unwind, AssertUnwindSafe};
use std::sync::atomic::{AtomicU64, Ordering};
use std::sync::Once;
use std::time::{Duration, Instant};

thread_local! {
    static LAST_PANIC: RefCell<Option<String>> = const { RefCell::new(None) };
}

static HOOK: Once = Once::new();

pub fn install_panic_hook() {
    HOOK.call_once(|| {
        std::panic::set_hook(Box::new(|info| {
            let loc = info
                .location()
                .map(|l| format!("{}:{}:{}", l.file(), l.line(), l.column()))
                .unwrap_or_else(|| "?".into());
            let msg = if let Some(s) = info.payload().downcast_ref::<&str>() {
                s.to_string()
            } else if let Some(s) = info.payload().downcast_ref::<String>() {
                s.clone()
            } else {
                "<non-string panic payload>".into()
            };
            LAST_PANIC.with(|p| *p.borrow_mut() = Some(format!("{} @ {}", msg, loc)));
        }));
    });
}

/// Outcome of an observed call
pub enum Obs<T> {
    Ret(T),
    Panic(String),
}

impl<T> Obs<T> {
    pub fn panicked(&self) -> Option<&str> {
        match self {
            Obs::Panic(s) => Some(s),
            _ => None,
        }
    }
}

static CALL_SEQ: AtomicU64 = AtomicU64::new(0);
static MAX_CALL_US: AtomicU64 = AtomicU64::new(0);

/// longest single observed call of this process, in microseconds
pub fn max_call_us() -> u64 {
    MAX_CALL_US.load(Ordering::Relaxed)
}
static CALL_START_MS: AtomicU64 = AtomicU64::new(0);
static EPOCH: std::sync::OnceLock<Instant> = std::sync::OnceLock::new();

fn now_ms() -> u64 {
    EPOCH.get_or_init(Instant::now).elapsed().as_millis() as u64 + 1
}

/// Run `f`, catching panics. Also feeds the watchdog.
pub fn observe<T>(f: impl FnOnce() -> T) -> Obs<T> {
    install_panic_hook();
    CALL_SEQ.fetch_add(1, Ordering::Relaxed);
    CALL_START_MS.store(now_ms(), Ordering::Relaxed);
    let t0 = Instant::now();
    let r = catch_unwind(AssertUnwindSafe(f));
    CALL_START_MS.store(0, Ordering::Relaxed);
    let us = t0.elapsed().as_micros() as u64;
    if us > MAX_CALL_US.load(Ordering::Relaxed) {
        MAX_CALL_US.store(us, Ordering::Relaxed);
    }
    match r {
        Ok(v) => Obs::Ret(v),
        Err(_) => {
            let msg = LAST_PANIC
                .with(|p| p.borrow_mut().take())
                .unwrap_or_else(|| "<panic without hook record>".into());
            Obs::Panic(msg)
        }
    }
}

/// Normalise a panic record to its location (drops the message) for signatures
pub fn panic_site(p: &str) -> String {
    match p.rfind(" @ ") {
        Some(i) => {
            let loc = &p[i + 3..];
            // strip column, keep file:line ; strip absolute prefix up to "src/"
            let loc = match loc.find("src/") {
                Some(k) => &loc[k..],
                None => loc,
            };
            let mut parts = loc.rsplitn(2, ':');
            let _col = parts.next();
            parts.next().unwrap_or(loc).to_string()
        }
        None => p.to_string(),
    }
}

/// Start the watchdog: if a single observed call lasts longer than `limit`, write a marker next to
/// the journal and exit(3).
pub fn start_watchdog(limit: Duration, marker_path: Option<String>) {
    let _ = now_ms();
    std::thread::spawn(move || loop {
        std::thread::sleep(Duration::from_millis(250));
        let st = CALL_START_MS.load(Ordering::Relaxed);
        if st != 0 {
            let seq = CALL_SEQ.load(Ordering::Relaxed);
            let run = now_ms().saturating_sub(st);
            if run > limit.as_millis() as u64 {
                // make sure it is still the same call
                if CALL_SEQ.load(Ordering::Relaxed) == seq && CALL_START_MS.load(Ordering::Relaxed) == st {
                    if let Some(p) = &marker_path {
                        let _ = std::fs::write(p, format!("HANG call_seq={} ran_ms={}\n", seq, run));
                    }
                    eprintln!("nvmon watchdog: call {} exceeded {:?}", seq, limit);
                    std::process::exit(3);
                }
            }
        }
    });
}

/// Crash journal: the current input, rewritten in place before every risky call.
pub struct Journal {
    file: Option<File>,
    buf: Vec<u8>,
}

impl Journal {
    pub fn open(path: Option<&str>) -> Journal {
        let file = path.and_then(|p| {
            OpenOptions::new()
                .create(true)
                .write(true)
                .truncate(true)
                .open(p)
                .ok()
        });
        Journal { file, buf: Vec::with_capacity(4096) }
    }
    /// record `label` + `input` as the call about to be made
    pub fn about_to(&mut self, label: &str, input: &str) {
        if let Some(f) = &self.file {
            self.buf.clear();
            // fixed header with lengths so stale tail bytes are ignored by the reader
            let body = format!("{}\u{1}{}", label, input);
            let header = format!("{:010}\n", body.len());
            self.buf.extend_from_slice(header.as_bytes());
            self.buf.extend_from_slice(body.as_bytes());
            let _ = f.write_all_at(&self.buf, 0); // write_at may write short (Miri does so on purpose)
        }
    }
    pub fn done(&mut self) {
        if let Some(f) = &self.file {
            let _ = f.write_all_at(b"0000000000\n", 0);
        }
    }
}

/// text of a caught panic payload; the silenced hook's record of message and site (same thread) when there is one
pub fn payload_text(p: &Box<dyn std::any::Any + Send>) -> String {
    if let Some(s) = LAST_PANIC.with(|l| l.borrow_mut().take()) {
        return s;
    }
    if let Some(s) = p.downcast_ref::<&str>() {
        s.to_string()
    } else if let Some(s) = p.downcast_ref::<String>() {
        s.clone()
    } else {
        "<non-string panic payload>".into()
    }
}
