//! A small interpreter for the subset of pest used by the README grammar:
//! rules `name = { .. }`, silent `_{ .. }`, atomic `@{ .. }`, sequence `~`, ordered choice `|`,
//! repetition `* + ?`, negative lookahead `!`, string literals, parentheses, the built-ins
//! ASCII_DIGIT, LETTER, NUMBER, PUNCTUATION, SYMBOL, WHITE_SPACE, ANY, and implicit WHITESPACE
//! between sequence items / repetitions of non-atomic rules.
//! PEG semantics: ordered choice commits to the first alternative that succeeds; no backtracking
//! into a succeeded alternative.

use crate::unicode_tables as ut;
use std::collections::HashMap;

#[derive(Debug, Clone)]
pub enum Expr {
    Lit(Vec<char>),
    Rule(String),
    Seq(Vec<Expr>),
    Choice(Vec<Expr>),
    Star(Box<Expr>),
    Plus(Box<Expr>),
    Opt(Box<Expr>),
    Not(Box<Expr>),
    And(Box<Expr>),
}

#[derive(Debug, Clone, Copy, PartialEq)]
pub enum Modifier {
    Normal,
    Silent,
    Atomic,
}

#[derive(Debug, Clone)]
pub struct Rule {
    pub modifier: Modifier,
    pub expr: Expr,
}

#[derive(Debug, Clone)]
pub struct Grammar {
    pub rules: HashMap<String, Rule>,
}

/// parse-tree node of a non-silent rule
#[derive(Debug, Clone)]
pub struct Node {
    pub rule: String,
    pub start: usize,
    pub end: usize,
    pub kids: Vec<Node>,
}

impl Node {
    pub fn text(&self, input: &[char]) -> String {
        input[self.start..self.end].iter().collect()
    }
    pub fn kid(&self, rule: &str) -> Option<&Node> {
        self.kids.iter().find(|k| k.rule == rule)
    }
    pub fn kids_of<'a>(&'a self, rule: &'a str) -> impl Iterator<Item = &'a Node> + 'a {
        self.kids.iter().filter(move |k| k.rule == rule)
    }
}

// ---------------------------------------------------------------------------------------------
// grammar text -> AST

struct Lexer {
    cs: Vec<char>,
    i: usize,
}

impl Lexer {
    fn skip(&mut self) {
        loop {
            while self.i < self.cs.len() && self.cs[self.i].is_whitespace() {
                self.i += 1;
            }
            if self.i + 1 < self.cs.len() && self.cs[self.i] == '/' && self.cs[self.i + 1] == '/' {
                while self.i < self.cs.len() && self.cs[self.i] != '\n' {
                    self.i += 1;
                }
            } else {
                break;
            }
        }
    }
    fn peek(&mut self) -> Option<char> {
        self.skip();
        self.cs.get(self.i).copied()
    }
    fn eat(&mut self, c: char) -> bool {
        if self.peek() == Some(c) {
            self.i += 1;
            true
        } else {
            false
        }
    }
    fn ident(&mut self) -> Option<String> {
        self.skip();
        let st = self.i;
        while self.i < self.cs.len() && (self.cs[self.i].is_ascii_alphanumeric() || self.cs[self.i] == '_') {
            self.i += 1;
        }
        if self.i > st {
            Some(self.cs[st..self.i].iter().collect())
        } else {
            None
        }
    }
    fn string(&mut self) -> Result<Vec<char>, String> {
        // opening quote already consumed
        let mut out = vec![];
        while self.i < self.cs.len() {
            let c = self.cs[self.i];
            self.i += 1;
            match c {
                '"' => return Ok(out),
                '\\' => {
                    let n = *self.cs.get(self.i).ok_or("bad escape")?;
                    self.i += 1;
                    out.push(match n {
                        'n' => '\n',
                        't' => '\t',
                        'r' => '\r',
                        '\\' => '\\',
                        '"' => '"',
                        '\'' => '\'',
                        '0' => '\0',
                        other => return Err(format!("unsupported escape \\{}", other)),
                    });
                }
                c => out.push(c),
            }
        }
        Err("unterminated string literal".into())
    }
}

fn parse_choice(lx: &mut Lexer) -> Result<Expr, String> {
    let mut alts = vec![parse_seq(lx)?];
    while lx.eat('|') {
        alts.push(parse_seq(lx)?);
    }
    Ok(if alts.len() == 1 { alts.pop().unwrap() } else { Expr::Choice(alts) })
}

fn parse_seq(lx: &mut Lexer) -> Result<Expr, String> {
    let mut items = vec![parse_term(lx)?];
    while lx.eat('~') {
        items.push(parse_term(lx)?);
    }
    Ok(if items.len() == 1 { items.pop().unwrap() } else { Expr::Seq(items) })
}

fn parse_term(lx: &mut Lexer) -> Result<Expr, String> {
    if lx.eat('!') {
        return Ok(Expr::Not(Box::new(parse_term(lx)?)));
    }
    if lx.eat('&') {
        return Ok(Expr::And(Box::new(parse_term(lx)?)));
    }
    let mut e = if lx.eat('(') {
        let e = parse_choice(lx)?;
        if !lx.eat(')') {
            return Err("expected ')'".into());
        }
        e
    } else if lx.eat('"') {
        Expr::Lit(lx.string()?)
    } else if let Some(id) = lx.ident() {
        Expr::Rule(id)
    } else {
        return Err(format!("unexpected character {:?} at {}", lx.peek(), lx.i));
    };
    loop {
        if lx.eat('*') {
            e = Expr::Star(Box::new(e));
        } else if lx.eat('+') {
            e = Expr::Plus(Box::new(e));
        } else if lx.eat('?') {
            e = Expr::Opt(Box::new(e));
        } else {
            break;
        }
    }
    Ok(e)
}

impl Grammar {
    pub fn parse(text: &str) -> Result<Grammar, String> {
        let mut lx = Lexer { cs: text.chars().collect(), i: 0 };
        let mut rules = HashMap::new();
        while lx.peek().is_some() {
            let name = lx.ident().ok_or_else(|| format!("expected a rule name at {}", lx.i))?;
            if !lx.eat('=') {
                return Err(format!("expected '=' after rule name {}", name));
            }
            let modifier = if lx.eat('_') {
                Modifier::Silent
            } else if lx.eat('@') {
                Modifier::Atomic
            } else {
                Modifier::Normal
            };
            if !lx.eat('{') {
                return Err(format!("expected '{{' in rule {}", name));
            }
            let expr = parse_choice(&mut lx)?;
            if !lx.eat('}') {
                return Err(format!("expected '}}' at the end of rule {} (at {})", name, lx.i));
            }
            rules.insert(name, Rule { modifier, expr });
        }
        Ok(Grammar { rules })
    }

    /// match `rule` at the start of `input`; Some((end, tree)) on success
    pub fn run(&self, rule: &str, input: &[char]) -> Option<(usize, Vec<Node>)> {
        let mut m = Machine { g: self, input, steps: 0 };
        let mut out = vec![];
        let end = m.rule(rule, 0, false, &mut out)?;
        Some((end, out))
    }
}

struct Machine<'a> {
    g: &'a Grammar,
    input: &'a [char],
    steps: u64,
}

impl<'a> Machine<'a> {
    fn builtin(&self, name: &str, pos: usize) -> Option<Option<usize>> {
        let c = self.input.get(pos).copied();
        let test = |ok: bool| Some(if ok { Some(pos + 1) } else { None });
        match name {
            "ANY" => test(c.is_some()),
            "ASCII_DIGIT" => test(c.map_or(false, |c| c.is_ascii_digit())),
            "LETTER" => test(c.map_or(false, |c| ut::in_table(ut::LETTER, c))),
            "NUMBER" => test(c.map_or(false, |c| ut::in_table(ut::NUMBER, c))),
            "PUNCTUATION" => test(c.map_or(false, |c| ut::in_table(ut::PUNCTUATION, c))),
            "SYMBOL" => test(c.map_or(false, |c| ut::in_table(ut::SYMBOL, c))),
            "WHITE_SPACE" => test(c.map_or(false, |c| ut::in_table(ut::WHITE_SPACE, c))),
            "EOI" => Some(if pos == self.input.len() { Some(pos) } else { None }),
            "SOI" => Some(if pos == 0 { Some(pos) } else { None }),
            _ => None,
        }
    }

    fn skip_ws(&mut self, pos: usize, atomic: bool) -> usize {
        if atomic || !self.g.rules.contains_key("WHITESPACE") {
            return pos;
        }
        let mut p = pos;
        loop {
            let mut sink = vec![];
            match self.rule("WHITESPACE", p, true, &mut sink) {
                Some(n) if n > p => p = n,
                _ => return p,
            }
        }
    }

    fn rule(&mut self, name: &str, pos: usize, atomic: bool, out: &mut Vec<Node>) -> Option<usize> {
        self.steps += 1;
        if self.steps > 5_000_000 {
            return None;
        }
        if let Some(r) = self.builtin(name, pos) {
            return r;
        }
        let g = self.g;
        let rule = g.rules.get(name)?;
        let inner_atomic = atomic || rule.modifier == Modifier::Atomic;
        let mut kids = vec![];
        let end = self.expr(&rule.expr, pos, inner_atomic, &mut kids)?;
        if atomic {
            // inside an atomic context inner rules produce no pairs
        } else if rule.modifier == Modifier::Silent {
            out.extend(kids);
        } else {
            let kids = if rule.modifier == Modifier::Atomic { vec![] } else { kids };
            out.push(Node { rule: name.to_string(), start: pos, end, kids });
        }
        Some(end)
    }

    fn expr(&mut self, e: &Expr, pos: usize, atomic: bool, out: &mut Vec<Node>) -> Option<usize> {
        match e {
            Expr::Lit(cs) => {
                if self.input.len() >= pos + cs.len() && self.input[pos..pos + cs.len()] == cs[..] {
                    Some(pos + cs.len())
                } else {
                    None
                }
            }
            Expr::Rule(name) => self.rule(name, pos, atomic, out),
            Expr::Seq(items) => {
                let mark = out.len();
                let mut p = pos;
                for (i, it) in items.iter().enumerate() {
                    if i > 0 {
                        p = self.skip_ws(p, atomic);
                    }
                    match self.expr(it, p, atomic, out) {
                        Some(n) => p = n,
                        None => {
                            out.truncate(mark);
                            return None;
                        }
                    }
                }
                Some(p)
            }
            Expr::Choice(alts) => {
                for a in alts {
                    let mark = out.len();
                    if let Some(n) = self.expr(a, pos, atomic, out) {
                        return Some(n);
                    }
                    out.truncate(mark);
                }
                None
            }
            Expr::Star(inner) => {
                let mut p = pos;
                let mut first = true;
                loop {
                    let mark = out.len();
                    let q = if first { p } else { self.skip_ws(p, atomic) };
                    match self.expr(inner, q, atomic, out) {
                        Some(n) if n > q => {
                            p = n;
                            first = false;
                        }
                        _ => {
                            // failure or zero-width iteration: stop, position stays before the skipped whitespace
                            out.truncate(mark);
                            return Some(p);
                        }
                    }
                }
            }
            Expr::Plus(inner) => {
                let p = self.expr(inner, pos, atomic, out)?;
                // then Star with leading whitespace skip
                let mut p = p;
                loop {
                    let mark = out.len();
                    let q = self.skip_ws(p, atomic);
                    match self.expr(inner, q, atomic, out) {
                        Some(n) if n > q => p = n,
                        _ => {
                            out.truncate(mark);
                            return Some(p);
                        }
                    }
                }
            }
            Expr::Opt(inner) => {
                let mark = out.len();
                match self.expr(inner, pos, atomic, out) {
                    Some(n) => Some(n),
                    None => {
                        out.truncate(mark);
                        Some(pos)
                    }
                }
            }
            Expr::Not(inner) => {
                let mut sink = vec![];
                match self.expr(inner, pos, atomic, &mut sink) {
                    Some(_) => None,
                    None => Some(pos),
                }
            }
            Expr::And(inner) => {
                let mut sink = vec![];
                self.expr(inner, pos, atomic, &mut sink).map(|_| pos)
            }
        }
    }
}

/// the ```pest block of a README
pub fn extract_pest_block(readme: &str) -> Option<String> {
    let start = readme.find("```pest")?;
    let rest = &readme[start + 7..];
    let end = rest.find("\n```")?;
    Some(rest[..end].to_string())
}

/// embedded fallback copy of the published grammar (README.md of the pinned commit)
pub const EMBEDDED_GRAMMAR: &str = r####"
WHITESPACE = _{ WHITE_SPACE }
narsese = { task | sentence | term }
task = { budget ~ sentence }
budget = { "$" ~ budget_content ~ "$" }
budget_content = { (truth_budget_term ~ (";" ~ truth_budget_term)* ~ ";"*) | "" }
truth_budget_term = @{(ASCII_DIGIT|".")+}
sentence = { term ~ punctuation ~ stamp? ~ truth? }
term = { statement | compound | atom }
statement = { "<" ~ term ~ copula ~ term ~ ">" }
copula = @{ (punct_sym ~ "-" ~ punct_sym) | (punct_sym ~ "=" ~ punct_sym) | ("=" ~ punct_sym ~ ">") | ("<" ~ punct_sym ~ ">") }
punct_sym = { (PUNCTUATION | SYMBOL) }
compound = { ("(" ~ connecter ~ "," ~ term ~ ("," ~ term)* ~ ")") | ("{" ~ term ~ ("," ~ term)* ~ "}") | ("[" ~ term ~ ("," ~ term)* ~ "]") }
connecter = @{ punct_sym ~ (!"," ~ punct_sym)* }
atom = { "_"+ | (atom_prefix ~ atom_content) | atom_content }
atom_prefix = @{ punct_sym+ }
atom_content = @{ atom_char ~ (!copula ~ atom_char)* }
atom_char = { LETTER | NUMBER | "_" | "-" }
punctuation = { (PUNCTUATION | SYMBOL) }
stamp = { ":" ~ (!":" ~ ANY)+ ~ ":" }
truth = { "%" ~ (truth_budget_term ~ (";" ~ truth_budget_term)* ~ ";"*) ~ "%" }
"####;
