//! Name pools and format handles.

use narsese::conversion::string::impl_enum::format_instances as ef;
use narsese::conversion::string::impl_enum::NarseseFormat as EnumFormat;
use narsese::conversion::string::impl_lexical::format_instances as lf;
use narsese::conversion::string::impl_lexical::NarseseFormat as LexFormat;

#[derive(Clone, Copy, Debug, PartialEq, Eq)]
pub enum Fmt {
    Ascii,
    Latex,
    Han,
}
pub const ALL_FMT: [Fmt; 3] = [Fmt::Ascii, Fmt::Latex, Fmt::Han];

pub static E_ASCII: EnumFormat<&str> = ef::FORMAT_ASCII;
pub static E_LATEX: EnumFormat<&str> = ef::FORMAT_LATEX;
pub static E_HAN: EnumFormat<&str> = ef::FORMAT_HAN;

impl Fmt {
    pub fn name(self) -> &'static str {
        match self {
            Fmt::Ascii => "ascii",
            Fmt::Latex => "latex",
            Fmt::Han => "han",
        }
    }
    pub fn from_name(s: &str) -> Option<Fmt> {
        ALL_FMT.iter().copied().find(|f| f.name() == s)
    }
    pub fn e(self) -> &'static EnumFormat<&'static str> {
        match self {
            Fmt::Ascii => &E_ASCII,
            Fmt::Latex => &E_LATEX,
            Fmt::Han => &E_HAN,
        }
    }
    pub fn l(self) -> &'static LexFormat {
        match self {
            Fmt::Ascii => &lf::FORMAT_ASCII,
            Fmt::Latex => &lf::FORMAT_LATEX,
            Fmt::Han => &lf::FORMAT_HAN,
        }
    }
}

thread_local! {
    static LEX_SLOT: std::cell::RefCell<Option<LexFormat>> = const { std::cell::RefCell::new(None) };
    static LEX_SLOT_FMT: std::cell::Cell<Option<Fmt>> = const { std::cell::Cell::new(None) };
}

/// the vocabulary of the format that currently sits in the per-thread slot
pub fn last_recreated() -> Option<Fmt> {
    LEX_SLOT_FMT.with(|c| c.get())
}

/// Run `body` with a lexical format that was *just created* by the public factory of `f` and stored
/// into one per-thread slot, i.e. at the address where the previously created format (usually of
/// another vocabulary) lived a moment ago.  The shipped formats are values a user may create, move
/// and drop; nothing may depend on where one lives.
pub fn with_recreated_lex<R>(f: Fmt, body: impl FnOnce(&LexFormat) -> R) -> R {
    LEX_SLOT_FMT.with(|c| c.set(Some(f)));
    LEX_SLOT.with(|slot| {
        *slot.borrow_mut() = Some(match f {
            Fmt::Ascii => lf::create_format_ascii(),
            Fmt::Latex => lf::create_format_latex(),
            Fmt::Han => lf::create_format_han(),
        });
        let b = slot.borrow();
        body(b.as_ref().unwrap())
    })
}

/// Every keyword string of an enum format instance (read from the instance itself).
pub fn keywords(f: &'static EnumFormat<&'static str>) -> Vec<&'static str> {
    let mut v = vec![
        f.atom.prefix_word,
        f.atom.prefix_variable_independent,
        f.atom.prefix_variable_dependent,
        f.atom.prefix_variable_query,
        f.atom.prefix_interval,
        f.atom.prefix_operator,
        f.atom.prefix_placeholder,
        f.compound.brackets.0,
        f.compound.brackets.1,
        f.compound.separator,
        f.compound.brackets_set_extension.0,
        f.compound.brackets_set_extension.1,
        f.compound.brackets_set_intension.0,
        f.compound.brackets_set_intension.1,
        f.compound.connecter_intersection_extension,
        f.compound.connecter_intersection_intension,
        f.compound.connecter_difference_extension,
        f.compound.connecter_difference_intension,
        f.compound.connecter_product,
        f.compound.connecter_image_extension,
        f.compound.connecter_image_intension,
        f.compound.connecter_conjunction,
        f.compound.connecter_disjunction,
        f.compound.connecter_negation,
        f.compound.connecter_conjunction_sequential,
        f.compound.connecter_conjunction_parallel,
        f.statement.brackets.0,
        f.statement.brackets.1,
        f.sentence.punctuation_judgement,
        f.sentence.punctuation_goal,
        f.sentence.punctuation_question,
        f.sentence.punctuation_quest,
        f.sentence.stamp_brackets.0,
        f.sentence.stamp_brackets.1,
        f.sentence.stamp_past,
        f.sentence.stamp_present,
        f.sentence.stamp_future,
        f.sentence.stamp_fixed,
        f.sentence.truth_brackets.0,
        f.sentence.truth_brackets.1,
        f.sentence.truth_separator,
        f.task.budget_brackets.0,
        f.task.budget_brackets.1,
        f.task.budget_separator,
    ];
    v.extend(f.copulas());
    v.retain(|s| !s.is_empty());
    v.sort();
    v.dedup();
    v
}

pub fn atom_prefixes(f: &'static EnumFormat<&'static str>) -> Vec<&'static str> {
    vec![
        f.atom.prefix_variable_independent,
        f.atom.prefix_variable_dependent,
        f.atom.prefix_variable_query,
        f.atom.prefix_interval,
        f.atom.prefix_operator,
        f.atom.prefix_placeholder,
    ]
}

/// Is `name` well-formed for format `f` in the sense of property C01: a non-empty identifier of the
/// format that does not begin with an atom prefix, does not begin or end with '-', and contains
/// none of its copulas.
pub fn is_wellformed_name(f: &'static EnumFormat<&'static str>, name: &str) -> bool {
    if name.is_empty() {
        return false;
    }
    if !name.chars().all(|c| (f.is_valid_atom_name)(c)) {
        return false;
    }
    if name.starts_with('-') || name.ends_with('-') {
        return false;
    }
    if atom_prefixes(f).iter().any(|p| !p.is_empty() && name.starts_with(p)) {
        return false;
    }
    if f.copulas().iter().any(|c| name.contains(c)) {
        return false;
    }
    true
}

/// Safe pool: well-formed AND sharing no character with any keyword of the format that consists of
/// identifier characters (this is what keeps Han names away from `预`, `算`, `真`, `值`, ...).
pub fn is_safe_name(f: &'static EnumFormat<&'static str>, name: &str) -> bool {
    if !is_wellformed_name(f, name) {
        return false;
    }
    for kw in keywords(f) {
        for c in kw.chars() {
            if (f.is_valid_atom_name)(c) && name.contains(c) {
                // ASCII/LaTeX keywords contain letters only inside backslash commands / `t=`, which
                // can never be confused with a name because they need a non-identifier char; only
                // reject when the whole keyword consists of identifier chars (Han), or it is `_`
                if kw.chars().all(|k| (f.is_valid_atom_name)(k)) {
                    return false;
                }
            }
        }
    }
    true
}

const RAW_NAMES: &[&str] = &[
    "A", "B", "C", "robin", "bird", "x1", "42", "0", "7", "a-b", "go-to", "a_b", "x--y", "αβγ", "鸟", "知更",
    "飞-行", "😀", "🚀x", "ｗｉｄｅ", "Ünï", "n0-1_z", "t", "e5", "inf", "NaN", "1e5", "SELF", "good", "left",
    "Z9", "q", "ß", "ー", "動物", "k-9", "a__", "x_", "0x1F", "日本", "한글", "Ωmega", "i", "l", "O0", "yz-1-2",
    // non-ASCII numerics (Nd / No / Nl): identifier characters of every format, NUMBER in the README grammar
    "x２", "٣", "v²", "①", "½", "Ⅷ", "格点-４-５", "９９",
];

/// Names that are safe in all three formats
pub fn common_safe_names() -> Vec<String> {
    RAW_NAMES
        .iter()
        .filter(|n| ALL_FMT.iter().all(|f| is_safe_name(f.e(), n)))
        .map(|s| s.to_string())
        .collect()
}

pub fn safe_names(f: Fmt) -> Vec<String> {
    RAW_NAMES.iter().filter(|n| is_safe_name(f.e(), n)).map(|s| s.to_string()).collect()
}

/// Names restricted as property C11 says: letters (ASCII, Greek, CJK), digits, '_' and inner '-'
pub fn c11_names() -> Vec<String> {
    RAW_NAMES
        .iter()
        .filter(|n| is_safe_name(Fmt::Ascii.e(), n))
        .filter(|n| n.chars().all(|c| c.is_alphanumeric() || c == '_' || c == '-'))
        .map(|s| s.to_string())
        .collect()
}

/// Near-keyword names: well-formed names that contain *no* keyword of the format but begin or end
/// with a proper part of a multi-character keyword (Han 工具 / 具 of 具有, x现 of 现得, 外 of 外像, ...).
/// They are inside every property's definition of an ordinary name.
pub fn near_keyword_names(f: Fmt) -> Vec<String> {
    // (computed once per format: the boundary test is cubic in the size of the keyword table)
    static CACHE: std::sync::OnceLock<Vec<Vec<String>>> = std::sync::OnceLock::new();
    let all = CACHE.get_or_init(|| ALL_FMT.iter().map(|f| near_keyword_names_all(*f).into_iter().filter(|n| boundary_safe(*f, n)).collect()).collect());
    all[ALL_FMT.iter().position(|x| *x == f).unwrap()].clone()
}

/// ... including those that are only unambiguous where nothing combines with them (as a whole
/// top-level term): written directly before 有, `x具` spells the copula 具有 across the token boundary,
/// which no parser can tell apart and no property asks for.
pub fn near_keyword_names_all(f: Fmt) -> Vec<String> {
    let e = f.e();
    let kws = keywords(e);
    adversarial_names(f)
        .into_iter()
        .filter(|n| !kws.iter().any(|k| *k != "-" && *k != "_" && n.contains(k)))
        .collect()
}

/// No keyword of the format can be read across a boundary between `name` and any keyword written
/// directly before or after it (formats without mandatory spaces: Han `x将` + `同` = `x` + `将同`).
pub fn boundary_safe(f: Fmt, name: &str) -> bool {
    let kws = keywords(f.e());
    let nlen = name.chars().count();
    let mut around: Vec<&str> = kws.clone();
    around.push("");
    for k1 in &around {
        for k2 in &around {
            let s: Vec<char> = k1.chars().chain(name.chars()).chain(k2.chars()).collect();
            let (lo, hi) = (k1.chars().count(), k1.chars().count() + nlen);
            for w in &kws {
                let wc: Vec<char> = w.chars().collect();
                if wc.len() < 2 || wc.len() > s.len() {
                    continue;
                }
                for p in 0..=(s.len() - wc.len()) {
                    // an occurrence that overlaps the name (the name itself contains no keyword, so it crosses a boundary)
                    if p < hi && p + wc.len() > lo && !(p >= lo && p + wc.len() <= hi) && s[p..p + wc.len()] == wc[..] {
                        return false;
                    }
                }
            }
        }
    }
    true
}

/// Adversarial names for a format: well-formed by C01's definition but built from the format's own
/// keywords (fixed enumeration, identical on every run).
pub fn adversarial_names(f: Fmt) -> Vec<String> {
    let e = f.e();
    let mut out: Vec<String> = vec![];
    let ident_kw: Vec<&str> = keywords(e)
        .into_iter()
        .filter(|k| k.chars().all(|c| (e.is_valid_atom_name)(c)))
        .collect();
    for kw in &ident_kw {
        out.push(kw.to_string());
        out.push(format!("{}x", kw));
        out.push(format!("x{}", kw));
        out.push(format!("x{}y", kw));
    }
    // bracket pairs with numeric content between
    let pairs = [
        (e.task.budget_brackets.0, e.task.budget_brackets.1),
        (e.sentence.truth_brackets.0, e.sentence.truth_brackets.1),
    ];
    for (l, r) in pairs {
        if l.chars().all(|c| (e.is_valid_atom_name)(c)) && r.chars().all(|c| (e.is_valid_atom_name)(c)) {
            for mid in ["", "1", "05"] {
                out.push(format!("{}{}{}", l, mid, r));
                out.push(format!("{}{}{}x", l, mid, r));
                out.push(format!("x{}{}{}", l, mid, r));
            }
        }
    }
    if e.sentence.stamp_fixed.chars().all(|c| (e.is_valid_atom_name)(c)) {
        out.push(format!("{}5", e.sentence.stamp_fixed));
        out.push(format!("x{}5", e.sentence.stamp_fixed));
        out.push(format!("x{}-5", e.sentence.stamp_fixed));
    }
    // proper prefixes / suffixes of multi-character keywords that are not keywords themselves
    // (Han: 具 of 具有, 现 of 现得, 任 of 任一, 外 of 外交 ...): alone and at either end of a name
    let all_kw = keywords(e);
    for kw in &all_kw {
        let cs: Vec<char> = kw.chars().collect();
        if cs.len() < 2 {
            continue;
        }
        for cut in 1..cs.len() {
            for part in [cs[..cut].iter().collect::<String>(), cs[cut..].iter().collect::<String>()] {
                if part.chars().all(|c| (e.is_valid_atom_name)(c)) && !all_kw.contains(&part.as_str()) {
                    out.push(part.clone());
                    out.push(format!("x{}", part));
                    out.push(format!("{}x", part));
                }
            }
        }
    }
    // generic tricky identifiers
    for s in ["t", "t5", "1", "0", "00", "1e5", "e", "inf", "nan", "x-1", "a--b", "a-_-b"] {
        out.push(s.to_string());
    }
    out.retain(|n| is_wellformed_name(e, n));
    out.sort();
    out.dedup();
    out
}
