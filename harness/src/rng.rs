//! Small deterministic PRNG (xoshiro256** seeded by splitmix64). No external crates.

#[derive(Clone, Debug)]
pub struct Rng {
    s: [u64; 4],
}

fn splitmix(x: &mut u64) -> u64 {
    *x = x.wrapping_add(0x9E37_79B9_7F4A_7C15);
    let mut z = *x;
    z = (z ^ (z >> 30)).wrapping_mul(0xBF58_476D_1CE4_E5B9);
    z = (z ^ (z >> 27)).wrapping_mul(0x94D0_49BB_1331_11EB);
    z ^ (z >> 31)
}

impl Rng {
    pub fn new(seed: u64) -> Self {
        let mut x = seed;
        let s = [
            splitmix(&mut x),
            splitmix(&mut x),
            splitmix(&mut x),
            splitmix(&mut x),
        ];
        Rng { s }
    }
    /// derive a sub-stream
    pub fn fork(&mut self, tag: u64) -> Rng {
        Rng::new(self.next_u64() ^ tag.wrapping_mul(0xD6E8_FEB8_6659_FD93))
    }
    pub fn next_u64(&mut self) -> u64 {
        let r = self.s[1].wrapping_mul(5).rotate_left(7).wrapping_mul(9);
        let t = self.s[1] << 17;
        self.s[2] ^= self.s[0];
        self.s[3] ^= self.s[1];
        self.s[1] ^= self.s[2];
        self.s[0] ^= self.s[3];
        self.s[2] ^= t;
        self.s[3] = self.s[3].rotate_left(45);
        r
    }
    /// uniform in 0..n (n>0)
    pub fn below(&mut self, n: usize) -> usize {
        debug_assert!(n > 0);
        (self.next_u64() % (n as u64)) as usize
    }
    pub fn range(&mut self, lo: usize, hi_incl: usize) -> usize {
        lo + self.below(hi_incl - lo + 1)
    }
    pub fn chance(&mut self, num: usize, den: usize) -> bool {
        self.below(den) < num
    }
    pub fn pick<'a, T>(&mut self, xs: &'a [T]) -> &'a T {
        &xs[self.below(xs.len())]
    }
    pub fn unit_f64(&mut self) -> f64 {
        // 53 random mantissa bits in [0,1)
        (self.next_u64() >> 11) as f64 / (1u64 << 53) as f64
    }
    pub fn shuffle<T>(&mut self, xs: &mut [T]) {
        for i in (1..xs.len()).rev() {
            let j = self.below(i + 1);
            xs.swap(i, j);
        }
    }
}

/// 64-bit FNV-1a, used for fingerprints of canonical forms (harness-side only)
pub fn fnv64(bytes: &[u8]) -> u64 {
    let mut h: u64 = 0xcbf2_9ce4_8422_2325;
    for b in bytes {
        h ^= *b as u64;
        h = h.wrapping_mul(0x0000_0100_0000_01B3);
    }
    h
}
