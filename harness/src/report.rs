//! Per-shard report: counts, fingerprints of distinct non-trivial cases, samples, histograms,
//! violations. Serialised as JSON for the driver; fingerprints go to a side file (binary u64 LE).

use crate::json::J;
use crate::rng::fnv64;
use std::collections::{BTreeMap, HashSet};
use std::io::Write;

pub struct Violation {
    /// stable signature (minimal witness), matched against known_findings.json
    pub sig: String,
    /// short human description
    pub what: String,
    /// everything needed to replay
    pub detail: J,
}

pub struct Report {
    pub property: String,
    pub evaluations: u64,
    pub fps: HashSet<u64>,
    pub fp_cap: usize,
    pub fp_overflow: u64,
    pub samples: Vec<J>,
    pub sample_cap: usize,
    pub hist: BTreeMap<String, u64>,
    pub violations: Vec<Violation>,
    pub violation_sigs: HashSet<String>,
    pub inconclusive: Vec<String>,
    pub notes: BTreeMap<String, J>,
    pub max_violations: usize,
    pub suppressed_violations: u64,
    /// the format this worker process did its very first work in ("none": straight into the workload)
    pub process_first_format: &'static str,
}

impl Report {
    pub fn new(property: &str) -> Report {
        Report {
            property: property.to_string(),
            evaluations: 0,
            fps: HashSet::new(),
            fp_cap: 3_000_000,
            fp_overflow: 0,
            samples: vec![],
            sample_cap: 12,
            hist: BTreeMap::new(),
            violations: vec![],
            violation_sigs: HashSet::new(),
            inconclusive: vec![],
            notes: BTreeMap::new(),
            max_violations: 40,
            suppressed_violations: 0,
            process_first_format: "none",
        }
    }
    pub fn eval(&mut self) {
        self.evaluations += 1;
    }
    pub fn evals(&mut self, n: u64) {
        self.evaluations += n;
    }
    /// count a distinct non-trivial case by its canonical text
    pub fn nontrivial(&mut self, key: &str) {
        self.nontrivial_fp(fnv64(key.as_bytes()));
    }
    pub fn nontrivial_fp(&mut self, fp: u64) {
        if self.fps.len() < self.fp_cap {
            self.fps.insert(fp);
        } else if !self.fps.contains(&fp) {
            self.fp_overflow += 1;
        }
    }
    pub fn bump(&mut self, key: &str) {
        *self.hist.entry(key.to_string()).or_insert(0) += 1;
    }
    pub fn bump_by(&mut self, key: &str, n: u64) {
        *self.hist.entry(key.to_string()).or_insert(0) += n;
    }
    pub fn hist_max(&mut self, key: &str, v: u64) {
        let e = self.hist.entry(key.to_string()).or_insert(0);
        if v > *e {
            *e = v;
        }
    }
    /// keep a few samples: the first ones and then reservoir-ish by evaluation count
    pub fn sample(&mut self, j: impl FnOnce() -> J) {
        if self.samples.len() < self.sample_cap {
            self.samples.push(j());
        } else if self.evaluations % 9973 == 0 {
            let k = (self.evaluations / 9973) as usize % self.sample_cap;
            if k >= 4 {
                self.samples[k] = j();
            }
        }
    }
    pub fn violate(&mut self, sig: String, what: String, detail: J) {
        if self.violation_sigs.contains(&sig) {
            return;
        }
        if self.violations.len() >= self.max_violations {
            self.suppressed_violations += 1;
            return;
        }
        self.violation_sigs.insert(sig.clone());
        let detail = detail.set("process_first_format", self.process_first_format).set("harness_build", if cfg!(debug_assertions) { "checked" } else { "plain" });
        self.violations.push(Violation { sig, what, detail });
    }
    pub fn note(&mut self, k: &str, v: impl Into<J>) {
        self.notes.insert(k.to_string(), v.into());
    }

    pub fn write(&self, out_json: &str, out_fps: &str) -> std::io::Result<()> {
        let mut j = J::obj()
            .set("property", &self.property)
            .set("evaluations", self.evaluations)
            .set("distinct_local", self.fps.len())
            .set("fp_overflow", self.fp_overflow)
            .set("samples", J::Arr(self.samples.clone()))
            .set("suppressed_violations", self.suppressed_violations)
            .set(
                "inconclusive",
                J::Arr(self.inconclusive.iter().map(|s| J::from(s)).collect()),
            );
        let mut h = J::obj();
        for (k, v) in &self.hist {
            h.put(k, *v);
        }
        j.put("hist", h);
        let mut n = J::obj();
        for (k, v) in &self.notes {
            n.put(k, v.clone());
        }
        j.put("notes", n);
        let vs: Vec<J> = self
            .violations
            .iter()
            .map(|v| {
                J::obj()
                    .set("sig", &v.sig)
                    .set("what", &v.what)
                    .set("detail", v.detail.clone())
            })
            .collect();
        j.put("violations", J::Arr(vs));
        std::fs::write(out_json, j.to_string())?;
        let mut f = std::io::BufWriter::new(std::fs::File::create(out_fps)?);
        for fp in &self.fps {
            f.write_all(&fp.to_le_bytes())?;
        }
        f.flush()
    }
}
