//! Hostile string generators for the parser totality / well-formedness monitors (C04, C05, C12).
//! Every string is bounded: <= 512 chars, bracket nesting <= 64.

use crate::desc::*;
use crate::names::*;
use crate::rng::Rng;

pub const MAX_CHARS: usize = 512;
pub const MAX_NEST: usize = 64;

pub fn clip(s: String) -> String {
    if s.chars().count() <= MAX_CHARS {
        s
    } else {
        s.chars().take(MAX_CHARS).collect()
    }
}

/// keyword table of a format, longest first (for greedy tokenisation)
pub fn kw_longest_first(f: Fmt) -> Vec<&'static str> {
    let mut k = keywords(f.e());
    k.sort_by(|a, b| b.chars().count().cmp(&a.chars().count()).then(a.cmp(b)));
    k
}

/// split a string into tokens: keywords of the format (greedy, longest first), runs of identifier
/// characters, runs of digits/dots, single other characters
pub fn tokenize(f: Fmt, s: &str) -> Vec<String> {
    let kws = kw_longest_first(f);
    let cs: Vec<char> = s.chars().collect();
    let mut out = vec![];
    let mut i = 0;
    'outer: while i < cs.len() {
        for k in &kws {
            let kc: Vec<char> = k.chars().collect();
            if cs[i..].starts_with(&kc) {
                out.push(k.to_string());
                i += kc.len();
                continue 'outer;
            }
        }
        let c = cs[i];
        if c.is_ascii_digit() || c == '.' {
            let mut j = i;
            while j < cs.len() && (cs[j].is_ascii_digit() || cs[j] == '.') {
                j += 1;
            }
            out.push(cs[i..j].iter().collect());
            i = j;
        } else if (f.e().is_valid_atom_name)(c) {
            let mut j = i;
            while j < cs.len() && (f.e().is_valid_atom_name)(cs[j]) && !cs[j].is_ascii_digit() {
                // stop where a keyword starts
                if j > i && kws.iter().any(|k| cs[j..].starts_with(&k.chars().collect::<Vec<_>>())) {
                    break;
                }
                j += 1;
            }
            if j == i {
                j = i + 1;
            }
            out.push(cs[i..j].iter().collect());
            i = j;
        } else {
            out.push(c.to_string());
            i += 1;
        }
    }
    out
}

pub struct StrGen {
    pub fmt: Fmt,
    pub kws: Vec<&'static str>,
    pub names: Vec<String>,
    pub all_kws: Vec<&'static str>,
}

const NUMBERS: &[&str] = &[
    "0", "1", "0.5", "1.0", "0.9", ".5", "5.", "1.5", "-1", "+1", "1e5", "..", "0.0.0", "00000.5", "2", "0.99999999999999999999", "1.0000000000000000000001",
    "9999999999999999999999999999999999999999", "0.", ".", "", "१", "0x1", "1_0", "NaN", "inf", "-0", "1e-400", "1e400",
    "1.0000000002", "1.000000001", "1.0000000000000002", "1.00000000000000000001", "0.99999999999999999999", "1.0000001", "0.00000000001",
    "0.000000000000000000000000000000000000000000000000000000000000000000001", "1.00000000000000000000000000000000000000000000000000000000000000000",
];

impl StrGen {
    pub fn new(fmt: Fmt) -> StrGen {
        let mut all: Vec<&'static str> = vec![];
        for f in ALL_FMT {
            all.extend(keywords(f.e()));
        }
        all.sort();
        all.dedup();
        StrGen { fmt, kws: keywords(fmt.e()), names: safe_names(fmt), all_kws: all }
    }

    /// a well-formed string of the format (through the real formatter)
    pub fn wellformed(&self, rng: &mut Rng, depth: usize) -> String {
        let g = Gen { names: &self.names, max_depth: depth, max_arity: 4, placeholders: true, set_bias: false };
        let nd = g.narsese(rng, depth);
        // (the workload generators must survive a formatter that panics: the panic is kept for the check
        // that owns formatting - C12 reports it - and the text comes from the harness's own renderer)
        match crate::guard::observe(|| self.fmt.e().format_narsese(&nd.build())) {
            crate::guard::Obs::Ret(s) => clip(s),
            crate::guard::Obs::Panic(p) => {
                note_formatter_panic(self.fmt, &nd, &p);
                clip(crate::surface::tokens(self.fmt, &nd, &mut crate::surface::Sugar::default()).join(" "))
            }
        }
    }

    pub fn number(&self, rng: &mut Rng) -> String {
        match rng.below(6) {
            0 => {
                let n = rng.range(1, 400);
                let mut s = String::from("0.");
                for _ in 0..n {
                    s.push((b'0' + rng.below(10) as u8) as char);
                }
                s
            }
            1 => format!("{}", rng.unit_f64()),
            2 => format!("{}", rng.next_u64()),
            _ => rng.pick(NUMBERS).to_string(),
        }
    }

    fn random_token(&self, rng: &mut Rng) -> String {
        match rng.below(12) {
            0..=5 => rng.pick(&self.kws).to_string(),
            6 => rng.pick(&self.all_kws).to_string(),
            7 | 8 => rng.pick(&self.names).clone(),
            9 => self.number(rng),
            10 => " ".to_string(),
            _ => random_unicode_char(rng).to_string(),
        }
    }

    /// token soup: random length <= 40 over the full keyword set + names + numbers + spaces
    pub fn soup(&self, rng: &mut Rng) -> String {
        let n = rng.range(1, 40);
        let mut s = String::new();
        for _ in 0..n {
            s.push_str(&self.random_token(rng));
            if rng.chance(1, 6) {
                s.push(' ');
            }
        }
        clip(s)
    }

    /// one random mutation of a string at token level
    pub fn mutate(&self, s: &str, rng: &mut Rng) -> String {
        let mut toks = tokenize(self.fmt, s);
        if toks.is_empty() {
            return self.random_token(rng);
        }
        let i = rng.below(toks.len());
        match rng.below(12) {
            0 => {
                toks.remove(i);
            }
            1 => {
                let t = toks[i].clone();
                toks.insert(i, t);
            }
            2 => {
                if i + 1 < toks.len() {
                    toks.swap(i, i + 1);
                }
            }
            3 => toks[i] = rng.pick(&self.kws).to_string(),
            4 => toks[i] = rng.pick(&self.all_kws).to_string(),
            5 => toks.truncate(i),
            6 => {
                toks.drain(..i);
            }
            7 => toks[i] = self.number(rng),
            8 => toks.insert(i, self.random_token(rng)),
            9 => toks.insert(i, " ".repeat(rng.range(1, 3))),
            10 => {
                // bracket flip: replace an opening bracket by its closing partner or vice versa
                let e = self.fmt.e();
                let pairs = [
                    e.compound.brackets,
                    e.compound.brackets_set_extension,
                    e.compound.brackets_set_intension,
                    e.statement.brackets,
                    e.sentence.truth_brackets,
                    e.task.budget_brackets,
                ];
                for (l, r) in pairs {
                    if toks[i] == l {
                        toks[i] = r.to_string();
                        break;
                    } else if toks[i] == r {
                        toks[i] = l.to_string();
                        break;
                    }
                }
            }
            _ => {
                // delete a range
                let j = (i + rng.range(1, 4)).min(toks.len());
                toks.drain(i..j);
            }
        }
        clip(toks.concat())
    }

    /// every prefix and every suffix (truncation at every char boundary)
    pub fn truncations(&self, s: &str) -> Vec<String> {
        let cs: Vec<char> = s.chars().collect();
        let mut out = vec![];
        for i in 0..cs.len() {
            out.push(cs[..i].iter().collect());
            out.push(cs[i..].iter().collect());
        }
        out
    }

    /// systematic token-level edits at every position
    pub fn systematic(&self, s: &str) -> Vec<String> {
        let toks = tokenize(self.fmt, s);
        let mut out = vec![];
        let e = self.fmt.e();
        let subst = [e.compound.brackets.1, e.statement.brackets.0, e.compound.separator, e.sentence.truth_brackets.0, e.task.budget_brackets.0, "1.5", ""];
        for i in 0..toks.len() {
            let mut t = toks.clone();
            t.remove(i);
            out.push(t.concat());
            let mut t = toks.clone();
            t.insert(i, toks[i].clone());
            out.push(t.concat());
            if i + 1 < toks.len() {
                let mut t = toks.clone();
                t.swap(i, i + 1);
                out.push(t.concat());
            }
            let mut t = toks.clone();
            t[i] = subst[i % subst.len()].to_string();
            out.push(t.concat());
        }
        out.into_iter().map(clip).collect()
    }

    /// atoms with long / multi-byte names after every prefix (alone, nested, in a sentence)
    pub fn long_names(&self, rng: &mut Rng) -> Vec<String> {
        const IDENT: &[char] = &['a', 'Z', '9', '0', '_', '-', '１', '９', '一', '二', '三', 'é', 'ß', 'α', '😀', '鸟', '한', 'ー', '٣', 'Ⅷ'];
        let e = self.fmt.e();
        let prefixes = [
            e.atom.prefix_word,
            e.atom.prefix_variable_independent,
            e.atom.prefix_variable_dependent,
            e.atom.prefix_variable_query,
            e.atom.prefix_interval,
            e.atom.prefix_operator,
            e.atom.prefix_placeholder,
        ];
        let mut out = vec![];
        for p in prefixes {
            let n = rng.range(1, 40);
            let uniform = rng.chance(1, 2);
            let c0 = *rng.pick(IDENT);
            let name: String = (0..n).map(|_| if uniform { c0 } else { *rng.pick(IDENT) }).collect();
            let atom = format!("{}{}", p, name);
            out.push(atom.clone());
            out.push(format!("{}{}", atom, e.sentence.punctuation_judgement));
            out.push(format!("{}{} {} A{}", e.statement.brackets.0, atom, e.statement.copula_inheritance, e.statement.brackets.1));
            out.push(format!("{}{}{} {}{}", e.compound.brackets.0, e.compound.connecter_product, e.compound.separator, atom, e.compound.brackets.1));
            // digits of many kinds after the interval prefix
            if p == e.atom.prefix_interval {
                out.push(format!("{}{}", p, "9".repeat(n)));
                out.push(format!("{}{}", p, "１".repeat(n.min(20))));
            }
        }
        out.into_iter().map(clip).collect()
    }

    /// deep nesting of each bracket kind, terminated and not
    pub fn deep_nesting(&self) -> Vec<String> {
        let e = self.fmt.e();
        let mut out = vec![];
        let conn = e.compound.connecter_conjunction;
        let sep = e.compound.separator;
        let cop = e.statement.copula_inheritance;
        for depth in [1usize, 2, 3, 4, 5, 6, 7, 8, 16, 32, 63, 64] {
            // sets
            for (l, r) in [e.compound.brackets_set_extension, e.compound.brackets_set_intension] {
                let open = l.repeat(depth);
                out.push(format!("{}A", open));
                out.push(format!("{}A{}", open, r.repeat(depth)));
                out.push(format!("{}A{}", open, r.repeat(depth / 2)));
                out.push(format!("{}{}", open, r.repeat(depth)));
                out.push(open.clone());
                out.push(r.repeat(depth));
            }
            // compounds
            let unit = format!("{}{}{}", e.compound.brackets.0, conn, sep);
            out.push(format!("{}A", unit.repeat(depth)));
            out.push(format!("{}A{}", unit.repeat(depth), e.compound.brackets.1.repeat(depth)));
            out.push(unit.repeat(depth));
            out.push(e.compound.brackets.0.repeat(depth));
            // a binary connecter outside unterminated n-ary ones: error after many skipped brackets
            let diff = format!("{}{}{}", e.compound.brackets.0, e.compound.connecter_difference_extension, sep);
            out.push(format!("{}{}A", diff, unit.repeat(depth)));
            let neg = format!("{}{}{}", e.compound.brackets.0, e.compound.connecter_negation, sep);
            out.push(format!("{}A{}{}B", neg, sep, unit.repeat(depth)));
            // statements
            let sopen = e.statement.brackets.0;
            out.push(format!("{}A", sopen.repeat(depth)));
            out.push(format!("{}A {} B{}", sopen.repeat(depth), cop, e.statement.brackets.1.repeat(depth)));
            let mut s = String::new();
            for _ in 0..depth {
                s.push_str(sopen);
            }
            s.push('A');
            for _ in 0..depth {
                s.push_str(&format!(" {} B{}", cop, e.statement.brackets.1));
            }
            out.push(s.clone());
            out.push(s.chars().take(s.chars().count() * 2 / 3).collect());
        }
        out.into_iter().map(clip).collect()
    }

    /// reduced alphabet for the bounded-exhaustive token sequences
    pub fn reduced_alphabet(&self) -> Vec<String> {
        let e = self.fmt.e();
        let mut v: Vec<String> = vec![
            e.compound.brackets.0.into(),
            e.compound.brackets.1.into(),
            e.compound.brackets_set_extension.0.into(),
            e.compound.brackets_set_extension.1.into(),
            e.statement.brackets.0.into(),
            e.statement.brackets.1.into(),
            e.compound.connecter_difference_extension.into(),
            e.compound.connecter_image_extension.into(),
            e.statement.copula_inheritance.into(),
            e.compound.separator.into(),
            "A".into(),
            e.atom.prefix_placeholder.into(),
            "0.5".into(),
            e.sentence.punctuation_judgement.into(),
            e.sentence.stamp_fixed.into(),
            e.sentence.truth_brackets.0.into(),
            e.sentence.truth_brackets.1.into(),
            e.task.budget_brackets.0.into(),
            e.task.budget_brackets.1.into(),
            e.atom.prefix_variable_independent.into(),
        ];
        if !e.sentence.stamp_brackets.0.is_empty() {
            v.push(e.sentence.stamp_brackets.0.into());
        }
        v.sort();
        v.dedup();
        v
    }
}

pub fn random_unicode_char(rng: &mut Rng) -> char {
    const POOL: &[char] = &[
        '\u{0}', '\t', '\n', '\r', '\u{b}', '\u{c}', '\u{85}', '\u{a0}', '\u{1680}', '\u{2000}', '\u{2003}', '\u{2028}', '\u{2029}', '\u{202f}', '\u{205f}',
        '\u{3000}', '\u{feff}', '\u{200b}', '\u{200d}', '\u{301}', '\u{20dd}', '\u{5d0}', '\u{627}', '\u{202e}', '\u{1f2ff}', '\u{1f300}', '\u{1f2fe}',
        '\u{10ffff}', '\u{e000}', '\u{fffd}', '\u{ff10}', '\u{660}', '\u{2460}', 'Ⅷ', '½', '\\', '{', '}', '"', '\'', '%', '$', '#', '~', '`', '=',
        '<', '>', '|', '/', ':', ';', ',', '(', ')', '[', ']', '&', '*', '^', '+', '-', '_', '!', '?', '@', '.', '预', '算', '真', '值', '某', '是',
        '\u{e0001}', '\u{e0100}', '\u{e007f}', '\u{e0fff}', '充', '堅', 'Ⅰ', '２', '²', '①',
    ];
    match rng.below(4) {
        0 => {
            // any scalar value
            loop {
                if let Some(c) = char::from_u32((rng.next_u64() % 0x110000) as u32) {
                    return c;
                }
            }
        }
        1 => char::from_u32(0x20 + rng.below(0x5f) as u32).unwrap(),
        _ => *rng.pick(POOL),
    }
}

static FORMATTER_PANICS: std::sync::Mutex<Vec<(String, String, String)>> = std::sync::Mutex::new(Vec::new());

fn note_formatter_panic(f: Fmt, nd: &ND, p: &str) {
    if let Ok(mut v) = FORMATTER_PANICS.lock() {
        if v.len() < 8 {
            v.push((f.name().to_string(), nd.canon(), p.to_string()));
        }
    }
}

/// formatter panics met while *generating* workload strings: (format, value, panic)
pub fn formatter_panics() -> Vec<(String, String, String)> {
    FORMATTER_PANICS.lock().map(|v| v.clone()).unwrap_or_default()
}

pub fn random_unicode(rng: &mut Rng) -> String {
    let n = rng.range(0, 60);
    (0..n).map(|_| random_unicode_char(rng)).collect()
}
