//! Greedy delta-debugging of description trees: keeps a candidate only if `fails` still holds.

use crate::desc::*;

fn term_candidates(t: &TD) -> Vec<TD> {
    let mut out = vec![];
    // replace by a child
    for k in &t.kids {
        out.push(k.clone());
    }
    // drop one child where arity allows
    match t.k.shape() {
        Shape::VecN | Shape::SetN => {
            if t.kids.len() > 1 {
                for i in 0..t.kids.len() {
                    let mut c = t.clone();
                    c.kids.remove(i);
                    out.push(c);
                }
            }
        }
        Shape::Image => {
            if t.kids.len() > 1 {
                for i in 0..t.kids.len() {
                    let mut c = t.clone();
                    c.kids.remove(i);
                    if c.num > c.kids.len() {
                        c.num = c.kids.len();
                    }
                    out.push(c.clone());
                    if i < t.num && t.num > 0 {
                        let mut c2 = c.clone();
                        c2.num = t.num - 1;
                        out.push(c2);
                    }
                }
            }
            if t.num > 0 {
                let mut c = t.clone();
                c.num = 0;
                out.push(c);
            }
        }
        _ => {}
    }
    // simplify atoms
    match t.k.shape() {
        Shape::AtomNamed => {
            for n in ["a", "b"] {
                if t.name != n && t.name != "a" {
                    let mut c = t.clone();
                    c.name = n.to_string();
                    out.push(c);
                }
            }
            if t.k != Kind::Word {
                let mut c = t.clone();
                c.k = Kind::Word;
                out.push(c);
            }
        }
        Shape::AtomInterval => {
            if t.num != 0 {
                let mut c = t.clone();
                c.num = 0;
                out.push(c);
            }
        }
        _ => {}
    }
    // recurse: shrink one child in place — only for moderately sized terms: for big ones the local
    // candidates above (replace by a child, drop a child) shrink fast, and building every nested
    // candidate eagerly would cost O(size^2) clones per step
    if t.size() > 60 {
        return out;
    }
    for i in 0..t.kids.len() {
        for kc in term_candidates(&t.kids[i]) {
            // images must not get a bare placeholder as direct component
            if t.k.shape() == Shape::Image && kc.k == Kind::Placeholder {
                continue;
            }
            let mut c = t.clone();
            c.kids[i] = kc;
            out.push(c);
        }
    }
    out
}

fn nonword_atoms(t: &TD) -> usize {
    let mut n = 0;
    t.visit(&mut |x| {
        if x.k.cat() == Cat::Atom && x.k != Kind::Word {
            n += 1;
        }
    });
    n
}

pub fn shrink_term(t: &TD, fails: &mut dyn FnMut(&TD) -> bool, budget: usize) -> TD {
    let mut cur = t.clone();
    let mut left = budget;
    loop {
        let mut progressed = false;
        for c in term_candidates(&cur) {
            if left == 0 {
                return cur;
            }
            // strictly decreasing in (size, canon length, canon text)
            if !td_wellformed(&c) && td_wellformed(&cur) {
                continue;
            }
            let (cc, kc) = (c.canon(), cur.canon());
            if (c.size(), nonword_atoms(&c), cc.len(), &cc) >= (cur.size(), nonword_atoms(&cur), kc.len(), &kc) {
                continue;
            }
            left -= 1;
            if fails(&c) {
                cur = c;
                progressed = true;
                break;
            }
        }
        if !progressed {
            return cur;
        }
    }
}

fn nd_candidates(n: &ND) -> Vec<ND> {
    let mut out = vec![];
    match n {
        ND::Task(k) => {
            out.push(ND::Sent(k.sent.clone()));
            out.push(ND::Term(k.sent.term.clone()));
            for i in 0..k.budget.len() {
                let mut c = k.clone();
                c.budget.truncate(i);
                out.push(ND::Task(c));
            }
            for (i, b) in k.budget.iter().enumerate() {
                if *b != 0.5 {
                    let mut c = k.clone();
                    c.budget[i] = 0.5;
                    out.push(ND::Task(c));
                }
            }
            for s in sd_candidates(&k.sent) {
                let mut c = k.clone();
                c.sent = s;
                out.push(ND::Task(c));
            }
        }
        ND::Sent(s) => {
            out.push(ND::Term(s.term.clone()));
            for c in sd_candidates(s) {
                out.push(ND::Sent(c));
            }
        }
        ND::Term(_) => {}
    }
    out
}

fn sd_candidates(s: &SD) -> Vec<SD> {
    let mut out = vec![];
    if s.stamp != StampD::Eternal {
        let mut c = s.clone();
        c.stamp = StampD::Eternal;
        out.push(c);
        if let StampD::Fixed(t) = s.stamp {
            if t != 0 {
                let mut c = s.clone();
                c.stamp = StampD::Fixed(0);
                out.push(c);
            }
        }
    }
    for i in 0..s.truth.len() {
        let mut c = s.clone();
        c.truth.truncate(i);
        out.push(c);
    }
    for (i, b) in s.truth.iter().enumerate() {
        if *b != 0.5 {
            let mut c = s.clone();
            c.truth[i] = 0.5;
            out.push(c);
        }
    }
    if s.punct != PunctD::Judgement {
        let mut c = s.clone();
        c.punct = PunctD::Judgement;
        out.push(c);
    }
    out
}

pub fn shrink_nd(n: &ND, fails: &mut dyn FnMut(&ND) -> bool, budget: usize) -> ND {
    let mut cur = n.clone();
    let mut left = budget;
    // first the wrapper
    loop {
        let mut progressed = false;
        for c in nd_candidates(&cur) {
            if left == 0 {
                return cur;
            }
            left -= 1;
            if fails(&c) {
                cur = c;
                progressed = true;
                break;
            }
        }
        if !progressed {
            break;
        }
    }
    // then the term
    let wrapper = cur.clone();
    let mut f2 = |t: &TD| {
        let mut w = wrapper.clone();
        *w.term_mut() = t.clone();
        fails(&w)
    };
    let t = shrink_term(wrapper.term(), &mut f2, left);
    let mut w = wrapper.clone();
    *w.term_mut() = t;
    w
}
