//! C12 — values produced by parsing or folding are always well-formed.

use super::c04::hostile_workload;
use super::c05::HostileLex;
use super::common::*;
use crate::desc::*;
use crate::guard::{observe, panic_site, Obs};
use crate::json::J;
use crate::lexgen;
use crate::names::*;
use crate::rng::Rng;
use crate::strings::*;
use crate::Ctx;
use narsese::api::{GetBudget, GetTerm, GetTruth};
use narsese::conversion::inter_type::lexical_fold::TryFoldInto;
use narsese::conversion::string::typst_formatter::FormatterTypst;
use narsese::enum_narsese::{Budget, Narsese, Term, Truth};
use narsese::lexical::{Narsese as LexNarsese, Task as LexTask};

fn in01(x: f64) -> bool {
    0.0 <= x && x <= 1.0
}

/// walk a term reading the public enum fields directly
fn term_defect(t: &Term, parser_result: bool) -> Option<String> {
    match t {
        Term::Word(n) | Term::VariableIndependent(n) | Term::VariableDependent(n) | Term::VariableQuery(n) | Term::Operator(n) => {
            if parser_result && n.is_empty() {
                return Some(format!("an atom of kind {} has an empty name", Kind::of_term(t).tag()));
            }
            None
        }
        Term::Placeholder | Term::Interval(_) => None,
        Term::SetExtension(s)
        | Term::SetIntension(s)
        | Term::IntersectionExtension(s)
        | Term::IntersectionIntension(s)
        | Term::Conjunction(s)
        | Term::Disjunction(s)
        | Term::ConjunctionParallel(s) => {
            if parser_result && s.is_empty() {
                return Some(format!("empty {}", Kind::of_term(t).tag()));
            }
            s.iter().find_map(|x| term_defect(x, parser_result))
        }
        Term::Product(v) | Term::ConjunctionSequential(v) => {
            if parser_result && v.is_empty() {
                return Some(format!("empty {}", Kind::of_term(t).tag()));
            }
            v.iter().find_map(|x| term_defect(x, parser_result))
        }
        Term::ImageExtension(i, v) | Term::ImageIntension(i, v) => {
            if *i > v.len() {
                return Some(format!("image placeholder index {} exceeds its {} components", i, v.len()));
            }
            v.iter().find_map(|x| term_defect(x, parser_result))
        }
        Term::Negation(a) => term_defect(a, parser_result),
        Term::DifferenceExtension(a, b)
        | Term::DifferenceIntension(a, b)
        | Term::Inheritance(a, b)
        | Term::Similarity(a, b)
        | Term::Implication(a, b)
        | Term::Equivalence(a, b)
        | Term::ImplicationPredictive(a, b)
        | Term::ImplicationConcurrent(a, b)
        | Term::ImplicationRetrospective(a, b)
        | Term::EquivalencePredictive(a, b)
        | Term::EquivalenceConcurrent(a, b) => term_defect(a, parser_result).or_else(|| term_defect(b, parser_result)),
    }
}

fn truth_defect(t: &Truth) -> Option<String> {
    truth_vec(t).iter().find(|x| !in01(**x)).map(|x| format!("truth component {:?} outside [0,1]", x))
}
fn budget_defect(b: &Budget) -> Option<String> {
    budget_vec(b).iter().find(|x| !in01(**x)).map(|x| format!("budget component {:?} outside [0,1]", x))
}

pub fn value_defect(v: &Narsese, parser_result: bool) -> Option<String> {
    let t = match v {
        Narsese::Term(t) => t,
        Narsese::Sentence(s) => s.get_term(),
        Narsese::Task(k) => k.get_term(),
    };
    if let Some(d) = term_defect(t, parser_result) {
        return Some(d);
    }
    match v {
        Narsese::Term(_) => None,
        Narsese::Sentence(s) => s.get_truth().and_then(truth_defect),
        Narsese::Task(k) => k.get_truth().and_then(truth_defect).or_else(|| budget_defect(k.get_budget())),
    }
}

/// such a value can always be formatted in all three formats and rendered to Typst
pub fn render_defect(v: &Narsese) -> Option<String> {
    for g in ALL_FMT {
        if let Obs::Panic(p) = observe(|| g.e().format_narsese(v)) {
            return Some(format!("formatting the value in {} panicked: {}", g.name(), p));
        }
    }
    let r = observe(|| match v {
        Narsese::Term(t) => FormatterTypst.format(t),
        Narsese::Sentence(s) => FormatterTypst.format(s),
        Narsese::Task(k) => FormatterTypst.format(k),
    });
    if let Obs::Panic(p) = r {
        return Some(format!("rendering the value to Typst panicked: {}", p));
    }
    None
}

fn string_failure(f: Fmt, s: &str) -> Option<String> {
    // (every parse builds its hash sets afresh, i.e. with another iteration order: texts long enough to
    // hold a wide set are parsed and rendered several times)
    let reps = if s.len() > 80 { 4 } else { 1 };
    (0..reps).find_map(|_| string_failure_once(f, s))
}

fn string_failure_once(f: Fmt, s: &str) -> Option<String> {
    match enum_parse_value(f, s) {
        Ok(Ok(v)) => value_defect(&v, true).map(|d| format!("parse accepted {:?} as {} but {}", s, canon_real_narsese(&v), d)).or_else(|| render_defect(&v)),
        Ok(Err(_)) => None,
        Err(_) => None, // panics are owned by C04
    }
}

fn standalone_failure(f: Fmt, s: &str) -> Option<String> {
    if let Obs::Ret(Ok(t)) = observe(|| f.e().parse::<Truth>(s)) {
        if let Some(d) = truth_defect(&t) {
            return Some(format!("parse::<Truth>({:?}) = {:?}: {}", s, t, d));
        }
    }
    if let Obs::Ret(Ok(b)) = observe(|| f.e().parse::<Budget>(s)) {
        if let Some(d) = budget_defect(&b) {
            return Some(format!("parse::<Budget>({:?}) = {:?}: {}", s, b, d));
        }
    }
    None
}

fn shrink_string(s: &str, fails: &mut dyn FnMut(&str) -> bool) -> String {
    let mut cur: Vec<char> = s.chars().collect();
    let mut chunk = (cur.len() / 2).max(1);
    let mut budget = 800;
    while budget > 0 {
        let mut i = 0;
        let mut progressed = false;
        while i < cur.len() && budget > 0 {
            let j = (i + chunk).min(cur.len());
            let cand: String = cur[..i].iter().chain(cur[j..].iter()).collect();
            budget -= 1;
            if fails(&cand) {
                cur = cand.chars().collect();
                progressed = true;
            } else {
                i += chunk;
            }
        }
        if !progressed {
            if chunk == 1 {
                break;
            }
            chunk /= 2;
        }
    }
    cur.into_iter().collect()
}

fn class_of(why: &str) -> String {
    // signature class: the defect text without the concrete numbers / strings
    let w = why.rsplit(" but ").next().unwrap_or(why);
    w.chars().filter(|c| !c.is_ascii_digit()).collect::<String>()
}

pub fn probe(ctx: &mut Ctx, f: Fmt, s: &str, family: &str) {
    // every 400th call something fails on this thread first (every 8th of those: a caught panic inside
    // the library, from a user-built format's predicate or a user iterator); the call that follows is checked
    if ctx.report.evaluations % 400 == 0 {
        something_fails_first((ctx.report.evaluations / 400) as usize);
    }
    ctx.journal.about_to(&format!("C12|{}", f.name()), s);
    ctx.report.eval();
    ctx.report.bump(&format!("family.{}", family));
    let accepted = matches!(enum_parse_value(f, s), Ok(Ok(_)));
    ctx.report.bump(if accepted { "outcome.accepted" } else { "outcome.rejected" });
    if accepted {
        ctx.report.nontrivial(&format!("{}|{}", f.name(), s));
        if family != "wellformed" {
            ctx.report.bump("accepted-hostile-inputs");
            let ss = s.to_string();
            ctx.report.sample(|| J::obj().set("format", f.name()).set("accepted_input", ss.clone()).set("family", family));
        }
    }
    if let Some(w) = string_failure(f, s) {
        let small = shrink_string(s, &mut |c| string_failure(f, c).is_some());
        let w2 = string_failure(f, &small).unwrap_or(w);
        ctx.report.violate(
            format!("C12|parse|{}|{}", f.name(), class_of(&w2)),
            format!("[{}] {}", f.name(), w2),
            J::obj().set("kind", "string").set("format", f.name()).set("input", small.clone()).set("original", s).set("why", w2.clone()),
        );
    }
    if let Some(w) = standalone_failure(f, s) {
        ctx.report.violate(
            format!("C12|standalone|{}|{}", f.name(), class_of(&w)),
            format!("[{}] {}", f.name(), w),
            J::obj().set("kind", "standalone").set("format", f.name()).set("input", s).set("why", w.clone()),
        );
    }
    ctx.journal.done();
}

/// structured wrong-arity inputs must be rejected
pub fn wrong_arity_inputs(f: Fmt) -> Vec<(String, &'static str)> {
    let e = f.e();
    let (l, r) = e.compound.brackets;
    let sep = e.compound.separator;
    let ph = e.atom.prefix_placeholder;
    let c = |conn: &str, items: &[&str]| {
        let mut s = format!("{}{}", l, conn);
        for it in items {
            s.push_str(sep);
            s.push(' ');
            s.push_str(it);
        }
        s.push_str(r);
        s
    };
    let mut v: Vec<(String, &'static str)> = vec![
        (c(e.compound.connecter_negation, &[]), "negation with 0"),
        (c(e.compound.connecter_negation, &["A", "B"]), "negation with 2"),
        (c(e.compound.connecter_negation, &["A", "B", "C"]), "negation with 3"),
        (c(e.compound.connecter_difference_extension, &[]), "ext difference with 0"),
        (c(e.compound.connecter_difference_extension, &["A"]), "ext difference with 1"),
        (c(e.compound.connecter_difference_extension, &["A", "B", "C"]), "ext difference with 3"),
        (c(e.compound.connecter_difference_intension, &["A"]), "int difference with 1"),
        (c(e.compound.connecter_difference_intension, &["A", "B", "C"]), "int difference with 3"),
        (c(e.compound.connecter_image_extension, &["A", "B"]), "ext image without placeholder"),
        (c(e.compound.connecter_image_intension, &["A"]), "int image without placeholder"),
        (c(e.compound.connecter_image_extension, &[]), "ext image with nothing"),
        (format!("{}{}", e.compound.brackets_set_extension.0, e.compound.brackets_set_extension.1), "empty ext set"),
        (format!("{}{}", e.compound.brackets_set_intension.0, e.compound.brackets_set_intension.1), "empty int set"),
        (format!("{} {}", e.compound.brackets_set_extension.0, e.compound.brackets_set_extension.1), "empty ext set with space"),
    ];
    for conn in [
        e.compound.connecter_conjunction,
        e.compound.connecter_disjunction,
        e.compound.connecter_product,
        e.compound.connecter_intersection_extension,
        e.compound.connecter_intersection_intension,
        e.compound.connecter_conjunction_sequential,
        e.compound.connecter_conjunction_parallel,
    ] {
        v.push((c(conn, &[]), "empty compound"));
    }
    let _ = ph;
    v
}

fn lenient_strings(g: &StrGen, rng: &mut Rng) -> Vec<String> {
    let e = g.fmt.e();
    let mut out = vec![];
    let list = |rng: &mut Rng, sep: &str, n: usize| -> String {
        let mut s = String::new();
        for i in 0..n {
            if i > 0 || rng.chance(1, 6) {
                s.push_str(sep);
                if rng.chance(1, 3) {
                    s.push(' ');
                }
            }
            if !rng.chance(1, 8) {
                s.push_str(&g.number(rng));
            }
        }
        if rng.chance(1, 4) {
            s.push_str(sep);
        }
        s
    };
    for _ in 0..6 {
        let n = rng.below(5);
        let close = rng.chance(2, 3);
        let truth = format!("{}{}{}", e.sentence.truth_brackets.0, list(rng, e.sentence.truth_separator, n), if close { e.sentence.truth_brackets.1 } else { "" });
        let nb = rng.below(6);
        let closeb = rng.chance(2, 3);
        let budget = format!("{}{}{}", e.task.budget_brackets.0, list(rng, e.task.budget_separator, nb), if closeb { e.task.budget_brackets.1 } else { "" });
        let p = e.sentence.punctuation_judgement;
        out.push(format!("A{} {}", p, truth));
        out.push(format!("{} A{}", budget, p));
        out.push(format!("{} A{} {}", budget, p, truth));
        out.push(truth.clone());
        out.push(budget.clone());
        out.push(format!("A {}", truth));
    }
    out.into_iter().map(clip).collect()
}

pub fn run(ctx: &mut Ctx) {
    // many threads at once (two per core) inside the entry points, on strings that hold alone
    if ctx.shard < 4 {
        let mut rng = ctx.rng(0x7C0);
        let mut cases: Vec<(Fmt, String)> = vec![];
        for f in ALL_FMT {
            let g = StrGen::new(f);
            for i in 0..30usize {
                let base = g.wellformed(&mut rng, 1 + i % 3);
                cases.push((f, if i % 3 == 2 { g.mutate(&base, &mut rng) } else { base }));
            }
            cases.extend(["", "(", "{A,", "<A --> B>. %1;0.9%", "$0.5$ A. :|:"].iter().map(|s| (f, s.to_string())));
            // (long inputs of many different lengths, cheap to parse: a shared pool of input buffers that is
            // only used above some size has to hand out, take back and drop buffers all the time)
            for i in 0..24usize {
                let base = g.wellformed(&mut rng, 2);
                cases.push((f, format!("{}{}{}", " ".repeat(40 + 37 * i), base, " ".repeat(17 * (i % 5)))));
            }
        }
        let rounds = if ctx.thorough { 60 } else { 6 };
        for f in ALL_FMT {
            let e = f.e();
            // (many distinct numbers: a shared table of number texts has to evict)
            cases.extend((0..120usize).map(|i| {
                let x = (i * 3 + ctx.shard) as f64;
                (f, format!("{}{:?}{}{:?}{} A{} {}{:?}{}{:?}{}", e.task.budget_brackets.0, x / 1013.0, e.task.budget_separator, (x + 2.0) / 1019.0, e.task.budget_brackets.1, e.sentence.punctuation_judgement, e.sentence.truth_brackets.0, x / 997.0, e.sentence.truth_separator, (x + 1.0) / 1009.0, e.sentence.truth_brackets.1))
            }));
        }
        concurrent_family(ctx, "C12", "well-formedness of parsed and folded values", cases, rounds, |c| string_failure(c.0, &c.1));
    }

    // (1) structured wrong-arity inputs must be rejected (fixed enumeration)
    let mut idx = 0usize;
    for f in ALL_FMT {
        for (s, what) in wrong_arity_inputs(f) {
            for wrap in 0..3 {
                idx += 1;
                if !ctx.mine(idx) {
                    continue;
                }
                let e = f.e();
                let text = match wrap {
                    0 => s.clone(),
                    1 => format!("{}{}", s, e.sentence.punctuation_judgement),
                    _ => format!("{}{} {} B{}", e.statement.brackets.0, s, e.statement.copula_inheritance, e.statement.brackets.1),
                };
                ctx.report.eval();
                ctx.report.bump("family.structured-wrong-arity");
                ctx.report.nontrivial(&format!("arity|{}|{}", f.name(), text));
                if let Ok(Ok(v)) = enum_parse_value(f, &text) {
                    ctx.report.violate(
                        format!("C12|arity|{}|{}", f.name(), what),
                        format!("[{}] the parser accepted {} {:?} as {}", f.name(), what, text, canon_real_narsese(&v)),
                        J::obj().set("kind", "arity").set("format", f.name()).set("input", text.clone()).set("why", what),
                    );
                }
                probe(ctx, f, &text, "structured-wrong-arity");
            }
        }
    }
    // (1b) wide sets and other unordered compounds (17..64 members) whose members are digit-led names of
    // mixed kinds (pure numbers of several lengths, hex-like and suffixed ids, non-ASCII digits): well
    // formed, so they must parse, format in every format and render, whatever order the set iterates in
    {
        let ids: Vec<String> = (1..=24u32)
            .map(|i| i.to_string())
            .chain(["1a", "2b", "3c", "4d", "10x", "0x1F", "1e5", "007", "00", "9９", "٣", "x２", "7-up", "a1", "b22", "Z9"].iter().map(|s| s.to_string()))
            .collect();
        for f in ALL_FMT {
            let e = f.e();
            let sep = format!("{} ", e.compound.separator);
            for (l, r) in [e.compound.brackets_set_extension, e.compound.brackets_set_intension] {
                for n in [17usize, 21, 24, 30, 40] {
                    for mix in 0..6usize {
                        idx += 1;
                        if !ctx.mine(idx) {
                            continue;
                        }
                        let members: Vec<String> = (0..n).map(|i| ids[(i * (mix * 2 + 1) + mix * 7) % ids.len()].clone()).collect();
                        let mut uniq = members.clone();
                        uniq.sort();
                        uniq.dedup();
                        let set = format!("{}{}{}", l, uniq.join(&sep), r);
                        let texts = [
                            set.clone(),
                            format!("{}{} {} B{}{}", e.statement.brackets.0, set, e.statement.copula_inheritance, e.statement.brackets.1, e.sentence.punctuation_judgement),
                            format!("{}{}{}{}{}", e.compound.brackets.0, e.compound.connecter_conjunction, sep, uniq.join(&sep), e.compound.brackets.1),
                        ];
                        for t in texts {
                            for _ in 0..4 {
                                probe(ctx, f, &t, "wide-sets-of-digit-led-names");
                            }
                        }
                    }
                }
            }
        }
    }
    // (1c) extreme numbers that the parser accepts: fixed stamps at the ends of the machine word, stand-alone
    // budgets / truths at and just outside the range
    for f in ALL_FMT {
        let e = f.e();
        for t in [isize::MIN, isize::MIN + 1, -1, 0, 1, isize::MAX - 1, isize::MAX] {
            let stamp = format!("{}{}{}{}", e.sentence.stamp_brackets.0, e.sentence.stamp_fixed, t, e.sentence.stamp_brackets.1);
            for text in [
                format!("A{} {}", e.sentence.punctuation_judgement, stamp),
                format!("A{} {}", e.sentence.punctuation_question, stamp),
                format!("{}0.5{} A{} {} {}1{}0.9{}", e.task.budget_brackets.0, e.task.budget_brackets.1, e.sentence.punctuation_goal, stamp, e.sentence.truth_brackets.0, e.sentence.truth_separator, e.sentence.truth_brackets.1),
            ] {
                idx += 1;
                if ctx.mine(idx) {
                    probe(ctx, f, &text, "extreme-stamps");
                }
            }
        }
        for num in ["0", "1", "1.0", "1.5", "2", "-0.5", "1.0000000001", "1e-3", "1e3", "NaN", "inf", "0.99999999999999999999"] {
            for text in [
                format!("{}{}{}", e.task.budget_brackets.0, num, e.task.budget_brackets.1),
                format!("{}0.5{}{}{}", e.task.budget_brackets.0, e.task.budget_separator, num, e.task.budget_brackets.1),
                format!("{}{}{}", e.sentence.truth_brackets.0, num, e.sentence.truth_brackets.1),
                format!("{}0.5{}{}{}", e.sentence.truth_brackets.0, e.sentence.truth_separator, num, e.sentence.truth_brackets.1),
                format!("{}{}", e.task.budget_brackets.0, num),
                format!("{}{}", e.sentence.truth_brackets.0, num),
            ] {
                idx += 1;
                if ctx.mine(idx) {
                    probe(ctx, f, &text, "stand-alone-number-lists");
                }
            }
        }
    }
    // (2) lenient acceptance workload
    let gens: Vec<StrGen> = ALL_FMT.iter().map(|f| StrGen::new(*f)).collect();
    let mut rng = ctx.rng(0xC12);
    let n = ctx.share(1_500_000, 15_000_000);
    let mut i = 0u64;
    while i < n {
        if ctx.out_of_time() {
            ctx.report.inconclusive.push(format!("lenient-acceptance workload cut at {} of {}", i, n));
            break;
        }
        let g = &gens[rng.below(3)];
        for s in lenient_strings(g, &mut rng) {
            probe(ctx, g.fmt, &s, "lenient-number-lists");
            i += 1;
        }
    }
    // (3) the shared hostile workload
    let mut sink = |ctx: &mut Ctx, f: Fmt, s: &str, family: &'static str| probe(ctx, f, s, family);
    hostile_workload(ctx, 0xC12A, 2_000_000, 20_000_000, &mut sink);
    // (4) fold results of hostile lexical values
    let h = HostileLex::new();
    let m = ctx.share(2_500_000, 25_000_000);
    let mut empty_names = 0u64;
    for i in 0..m {
        if ctx.out_of_time() {
            ctx.report.inconclusive.push(format!("fold workload cut at {} of {}", i, m));
            break;
        }
        let v = rng.below(3);
        let folder = if rng.chance(5, 6) { ALL_FMT[v] } else { ALL_FMT[rng.below(3)] };
        let depth = 1 + rng.below(4);
        let x = match rng.below(3) {
            0 => LexNarsese::Term(h.term(&mut rng, depth, v)),
            1 => LexNarsese::Sentence(h.sentence(&mut rng, depth, v)),
            _ => LexNarsese::Task(LexTask { budget: h.floats(&mut rng, 5), sentence: h.sentence(&mut rng, depth, v) }),
        };
        ctx.report.eval();
        ctx.report.bump("family.fold-of-hostile-lexical-values");
        let r = observe(|| x.clone().try_fold_into(folder.e()));
        match r {
            Obs::Ret(Ok(val)) => {
                let val: Narsese = val;
                ctx.report.bump("outcome.fold.ok");
                ctx.report.nontrivial(&format!("fold|{}|{}", folder.name(), lexgen::lex_canon(&x)));
                if value_defect(&val, true).map_or(false, |d| d.contains("empty name")) {
                    empty_names += 1;
                }
                let d = value_defect(&val, false).or_else(|| render_defect(&val));
                if let Some(w) = d {
                    ctx.report.violate(
                        format!("C12|fold|{}", class_of(&w)),
                        format!("folding {} with {} gave {} but {}", lexgen::lex_canon(&x), folder.name(), canon_real_narsese(&val), w),
                        J::obj().set("kind", "fold").set("folder", folder.name()).set("lexical", lexgen::lex_json(&x)).set("why", w.clone()),
                    );
                }
            }
            Obs::Ret(Err(_)) => ctx.report.bump("outcome.fold.err"),
            Obs::Panic(p) => {
                // totality is owned by C05; recorded here as information
                ctx.report.bump(&format!("fold-panic-seen.{}", panic_site(&p)));
            }
        }
    }
    ctx.report.note("fold_results_with_empty_atom_names_observation_only", empty_names);
    // a well-formed value the string generators built could not be formatted at all
    for (f, canon, p) in formatter_panics() {
        ctx.report.violate(
            format!("C12|format-panic|{}|{}", f, crate::guard::panic_site(&p)),
            format!("[{}] formatting the well-formed value {} panicked: {}", f, canon, p),
            J::obj().set("kind", "format-panic").set("format", f.as_str()).set("value_canon", canon.as_str()).set("panic", p.as_str()),
        );
    }
    ctx.report.note(
        "rule",
        "a case = one input string through the enum parser (every Ok value walked, then formatted in 3 formats and rendered to Typst) or one lexical value folded; non-trivial = the input was accepted (Ok) — rejected inputs only count as evaluations; distinct = distinct accepted (format, string) / (folder, lexical value)",
    );
}

pub fn replay(ctx: &mut Ctx, d: &J) -> Option<()> {
    if d.get("journal").is_some() {
        let label = jstr(d, "label")?;
        let f = Fmt::from_name(label.split('|').nth(1)?)?;
        probe(ctx, f, &jstr(d, "input")?, "replay");
        return Some(());
    }
    match jstr(d, "kind")?.as_str() {
        "fold" => {
            let folder = Fmt::from_name(&jstr(d, "folder")?)?;
            let x = lexgen::lex_from_json(d.get("lexical")?)?;
            if let Obs::Ret(Ok(val)) = observe(|| x.clone().try_fold_into(folder.e())) {
                let val: Narsese = val;
                if let Some(w) = value_defect(&val, false).or_else(|| render_defect(&val)) {
                    ctx.report.violate(format!("C12|fold|{}", class_of(&w)), w, d.clone());
                }
            }
        }
        "format-panic" => super::rerun_fixed(ctx),
        "arity" => {
            let f = fmt_of(d)?;
            let s = jstr(d, "input")?;
            if let Ok(Ok(_)) = enum_parse_value(f, &s) {
                ctx.report.violate(format!("C12|arity|{}", f.name()), format!("accepted {:?}", s), d.clone());
            }
        }
        _ => {
            let f = fmt_of(d)?;
            probe(ctx, f, &jstr(d, "input")?, "replay");
            if let Some(o) = jstr(d, "original") {
                probe(ctx, f, &o, "replay");
            }
        }
    }
    Some(())
}
