//! Helpers shared by the property monitors.

use crate::desc::*;
use crate::guard::{observe, panic_site, Obs};
use crate::json::J;
use crate::names::Fmt;
use narsese::conversion::string::impl_enum::NarseseFormat as EnumFormat;
use narsese::conversion::inter_type::lexical_fold::TryFoldInto;
use narsese::enum_narsese::Narsese;
use narsese::lexical::Narsese as LexNarsese;

/// Result of one pipeline on one string, reduced to what the monitors compare.
#[derive(Clone, Debug, PartialEq)]
pub enum Out {
    /// Ok with the canonical form of the value
    Ok(String),
    Err(String),
    Panic(String),
}

impl Out {
    pub fn is_ok(&self) -> bool {
        matches!(self, Out::Ok(_))
    }
    pub fn short(&self) -> String {
        match self {
            Out::Ok(c) => format!("Ok({})", c),
            Out::Err(e) => format!("Err({})", e),
            Out::Panic(p) => format!("PANIC({})", p),
        }
    }
    /// class used for "same outcome" comparisons: Ok(canon) / Err / Panic(site)
    pub fn class(&self) -> String {
        match self {
            Out::Ok(c) => format!("Ok({})", c),
            Out::Err(_) => "Err".into(),
            Out::Panic(p) => format!("PANIC({})", panic_site(p)),
        }
    }
}

/// enum parser on a string
pub fn enum_parse(f: Fmt, s: &str) -> Out {
    match observe(|| f.e().parse::<Narsese>(s).map(|v| canon_real_narsese(&v)).map_err(|e| e.to_string())) {
        Obs::Ret(Ok(c)) => Out::Ok(c),
        Obs::Ret(Err(e)) => Out::Err(e),
        Obs::Panic(p) => Out::Panic(p),
    }
}

pub fn enum_parse_value(f: Fmt, s: &str) -> Result<Result<Narsese, String>, String> {
    match observe(|| f.e().parse::<Narsese>(s).map_err(|e| e.to_string())) {
        Obs::Ret(r) => Ok(r),
        Obs::Panic(p) => Err(p),
    }
}

/// lexical parser + fold on a string
pub fn lex_fold_parse(f: Fmt, s: &str) -> Out {
    match observe(|| -> Result<String, String> {
        let lx: LexNarsese = f.l().parse(s).map_err(|e| format!("lexical parse: {}", e))?;
        let v: Narsese = lx.try_fold_into(f.e()).map_err(|e| format!("fold: {:?}", e))?;
        Ok(canon_real_narsese(&v))
    }) {
        Obs::Ret(Ok(c)) => Out::Ok(c),
        Obs::Ret(Err(e)) => Out::Err(e),
        Obs::Panic(p) => Out::Panic(p),
    }
}

/// lexical `parse_term` entry + fold on the text of a bare term
pub fn lex_term_fold_parse(f: Fmt, s: &str) -> Out {
    match observe(|| -> Result<String, String> {
        let lx = f.l().parse_term(s).map_err(|e| format!("lexical parse_term: {}", e))?;
        let v: narsese::enum_narsese::Term = lx.try_fold_into(f.e()).map_err(|e| format!("fold: {:?}", e))?;
        Ok(format!("T<{}>", canon_real(&v)))
    }) {
        Obs::Ret(Ok(c)) => Out::Ok(c),
        Obs::Ret(Err(e)) => Out::Err(e),
        Obs::Panic(p) => Out::Panic(p),
    }
}

/// Copies of the shipped enum format of `g` whose vocabulary is *permuted within itself*: the tense
/// markers rotated (past -> present -> future), the copulas / connecters / atom prefixes /
/// punctuations rotated by one, the two set bracket pairs swapped.  A user may define such a format
/// (the field comments suggest it); a memo or cache inside the library that is keyed by a keyword
/// string alone - not by the format - then holds entries that are wrong for the shipped format.
pub fn permuted_formats(g: Fmt) -> Vec<EnumFormat<&'static str>> {
    let base: EnumFormat<&'static str> = match g {
        Fmt::Ascii => narsese::conversion::string::impl_enum::format_instances::FORMAT_ASCII,
        Fmt::Latex => narsese::conversion::string::impl_enum::format_instances::FORMAT_LATEX,
        Fmt::Han => narsese::conversion::string::impl_enum::format_instances::FORMAT_HAN,
    };
    let mut out = vec![];
    {
        let mut v = base.clone();
        let s = &mut v.sentence;
        (s.stamp_past, s.stamp_present, s.stamp_future) = (s.stamp_present, s.stamp_future, s.stamp_past);
        out.push(v);
    }
    {
        let mut v = base.clone();
        let s = &mut v.sentence;
        (s.punctuation_judgement, s.punctuation_goal, s.punctuation_question, s.punctuation_quest) = (s.punctuation_goal, s.punctuation_question, s.punctuation_quest, s.punctuation_judgement);
        out.push(v);
    }
    {
        let mut v = base.clone();
        let a = &mut v.atom;
        (a.prefix_variable_independent, a.prefix_variable_dependent, a.prefix_variable_query, a.prefix_operator) = (a.prefix_variable_dependent, a.prefix_variable_query, a.prefix_operator, a.prefix_variable_independent);
        out.push(v);
    }
    {
        let mut v = base.clone();
        let c = &mut v.compound;
        (c.brackets_set_extension, c.brackets_set_intension) = (c.brackets_set_intension, c.brackets_set_extension);
        (c.connecter_conjunction, c.connecter_disjunction, c.connecter_product, c.connecter_conjunction_parallel) = (c.connecter_disjunction, c.connecter_product, c.connecter_conjunction_parallel, c.connecter_conjunction);
        out.push(v);
    }
    {
        let mut v = base.clone();
        let t = &mut v.statement;
        (t.copula_inheritance, t.copula_similarity, t.copula_implication, t.copula_equivalence) = (t.copula_similarity, t.copula_implication, t.copula_equivalence, t.copula_inheritance);
        (t.copula_implication_predictive, t.copula_implication_concurrent, t.copula_implication_retrospective) = (t.copula_implication_concurrent, t.copula_implication_retrospective, t.copula_implication_predictive);
        out.push(v);
    }
    out
}

/// A little work in format `g` through every parser and formatter, meant to be the *first* thing a
/// thread does: whatever the library initialises lazily per thread or per process is then
/// initialised from format `g` rather than from the format under test.
pub fn prelude(g: Fmt) {
    let t = TD::bin(
        Kind::Inh,
        TD::comp(Kind::SetExt, vec![TD::word("a-b"), TD::atom(Kind::IVar, "x")]),
        TD::comp(Kind::Product, vec![TD::word("c"), TD::bin(Kind::EquivConc, TD::word("d"), TD::word("e"))]),
    );
    let v = ND::Task(KD { sent: SD { term: t, punct: PunctD::Judgement, stamp: StampD::Present, truth: vec![1.0, 0.9] }, budget: vec![0.5] }).build();
    let _ = observe(|| {
        // first the permuted-vocabulary variants of `g` (formatted, parsed, and the shipped lexical value
        // folded with the variant as folder) for the three tenses, so that anything the library remembers
        // per keyword string is first filled in by a format in which that string means something else
        let s = g.e().format_narsese(&v);
        for pf in permuted_formats(g) {
            let s2 = pf.format_narsese(&v);
            let _ = pf.parse::<Narsese>(&s2);
            for st in [StampD::Past, StampD::Present, StampD::Future] {
                let v3 = ND::Sent(SD { term: TD::word("a"), punct: PunctD::Goal, stamp: st, truth: vec![0.5] }).build();
                if let Ok(lx) = g.l().parse(&g.e().format_narsese(&v3)) {
                    let _: Result<Narsese, _> = lx.try_fold_into(&pf);
                }
            }
            if let Ok(lx) = g.l().parse(&s) {
                let _: Result<Narsese, _> = lx.try_fold_into(&pf);
            }
        }
        // a value with a negative zero (accepted by the constructors) is formatted before any other number
        {
            use narsese::enum_narsese::{Sentence, Stamp, Term, Truth};
            let z = Sentence::new_judgement(Term::new_word("z"), Truth::Double(-0.0, -0.0), Stamp::Eternal);
            let _ = g.e().format_sentence(&z);
        }
        let _ = g.e().parse::<Narsese>(&s);
        if let Ok(lx) = g.l().parse(&s) {
            let _ = g.l().format_narsese(&lx);
            let _: Result<Narsese, _> = lx.try_fold_into(g.e());
        }
        let mut h = std::collections::hash_map::DefaultHasher::new();
        if let Narsese::Task(t) = &v {
            use narsese::api::GetTerm;
            std::hash::Hash::hash(t.get_term(), &mut h);
        }
    });
}

/// run `job` on a thread with a 1 GiB stack (terms nested hundreds of levels deep recurse that deep in
/// the library, in `Drop` and in the harness's own walks); None if the thread could not run or died
pub fn on_big_stack<R: Send + 'static>(job: impl FnOnce() -> R + Send + 'static) -> Option<R> {
    // (the stack is reserved address space, touched only as deep as the recursion goes; where even the
    // reservation is refused, smaller ones are tried)
    let mut job = Some(job);
    for size in [1usize << 30, 1 << 28, 1 << 26] {
        let j = job.take()?;
        let slot = std::sync::Arc::new(std::sync::Mutex::new(Some(j)));
        let slot2 = slot.clone();
        match std::thread::Builder::new().stack_size(size).spawn(move || {
            let j = slot2.lock().ok().and_then(|mut g| g.take());
            j.map(|j| j())
        }) {
            Ok(h) => return h.join().ok().flatten(),
            Err(_) => {
                // not started: take the job back and try a smaller stack
                job = slot.lock().ok().and_then(|mut g| g.take());
            }
        }
    }
    BIG_STACK_REFUSED.fetch_add(1, std::sync::atomic::Ordering::Relaxed);
    None
}

/// can this process start threads with a large stack at all?  (Checked once; where it cannot, the
/// extreme-size families are skipped and the run says so under `inconclusive`.)
pub fn big_stacks_available() -> bool {
    static OK: std::sync::OnceLock<bool> = std::sync::OnceLock::new();
    *OK.get_or_init(|| std::thread::Builder::new().stack_size(1 << 26).spawn(|| ()).map(|h| h.join().is_ok()).unwrap_or(false))
}

/// how often no large-stack thread could be started at all (then the case is skipped: inconclusive)
pub static BIG_STACK_REFUSED: std::sync::atomic::AtomicU64 = std::sync::atomic::AtomicU64::new(0);

/// was the last `None` of `on_big_stack` a refusal to start the thread (not a death of the thread)?
pub fn big_stack_refusals() -> u64 {
    BIG_STACK_REFUSED.load(std::sync::atomic::Ordering::Relaxed)
}

/// a term nested `depth` levels deep along one spine: negations, one-element sets, products,
/// statements and images in rotation (`variant` shifts the rotation; 0 = negations only)
pub fn deep_td(depth: usize, variant: usize) -> TD {
    let mut t = TD::word("core");
    for i in 0..depth {
        let k = if variant == 0 { 0 } else { (i + variant) % 7 };
        t = match k {
            0 => TD::comp(Kind::Neg, vec![t]),
            1 => TD::comp(Kind::SetExt, vec![t]),
            2 => TD::comp(Kind::Product, vec![TD::word("p"), t]),
            3 => TD::bin(Kind::Inh, t, TD::word("q")),
            4 => TD::comp(Kind::Conj, vec![t, TD::word("r")]),
            5 => TD::bin(Kind::Sim, TD::word("s"), t),
            _ => TD::image(Kind::ImgExt, 1, vec![TD::word("R"), t]),
        };
    }
    t
}

/// a compound of kind `k` with `n` distinct word components `w0..` (images: placeholder in the middle)
pub fn wide_td(k: Kind, n: usize) -> TD {
    let kids: Vec<TD> = (0..n).map(|i| TD::word(&format!("w{}", i))).collect();
    if k.shape() == Shape::Image {
        TD::image(k, n / 2, kids)
    } else {
        TD::comp(k, kids)
    }
}

/// set by `main` for the thorough tier
pub static THOROUGH: std::sync::atomic::AtomicBool = std::sync::atomic::AtomicBool::new(false);

/// The extreme-size cases shared by the checks: terms nested 129..300 deep and compounds with
/// 255..1000 components - beyond the random generators' bounds (depth 90, arity 130), inside every
/// property's "any nesting depth / any number of components".  Labels rebuild the term in a replay.
pub fn extreme_cases() -> Vec<(String, TD)> {
    let mut out = vec![];
    if !big_stacks_available() {
        return out;
    }
    if THOROUGH.load(std::sync::atomic::Ordering::Relaxed) {
        // thorough tier: further out (the lexical parser is quadratic in the length of its input, so the
        // widths stay in the low thousands)
        for depth in [600usize, 1000, 2000] {
            for variant in [0usize, 1, 3] {
                out.push((format!("deep:{}:{}", depth, variant), deep_td(depth, variant)));
            }
        }
        for n in [2000usize, 3000] {
            for k in [Kind::SetExt, Kind::Conj, Kind::Product, Kind::ImgExt] {
                out.push((format!("wide:{}:{}", k.tag(), n), wide_td(k, n)));
            }
        }
    }
    for depth in [129usize, 200, 257, 300] {
        for variant in [0usize, 1, 3] {
            out.push((format!("deep:{}:{}", depth, variant), deep_td(depth, variant)));
        }
    }
    for n in [255usize, 256, 257, 300, 1000] {
        for k in [Kind::SetExt, Kind::SetInt, Kind::Conj, Kind::IntExt, Kind::Product, Kind::ConjSeq, Kind::ImgExt] {
            out.push((format!("wide:{}:{}", k.tag(), n), wide_td(k, n)));
        }
    }
    out
}

pub fn extreme_from_label(label: &str) -> Option<TD> {
    let p: Vec<&str> = label.split(':').collect();
    match p.as_slice() {
        ["deep", d, v] => Some(deep_td(d.parse().ok()?, v.parse().ok()?)),
        ["wide", k, n] => Some(wide_td(ALL_KINDS.iter().copied().find(|x| x.tag() == *k)?, n.parse().ok()?)),
        _ => None,
    }
}

/// run `job` as the first work of a freshly spawned thread, after `prelude(g)` when `g` is given
pub fn on_fresh_thread<R: Send + 'static>(g: Option<Fmt>, job: impl FnOnce() -> R + Send + 'static) -> Option<R> {
    std::thread::spawn(move || {
        if let Some(g) = g {
            prelude(g);
        }
        job()
    })
    .join()
    .ok()
}

/// lexical parser + fold, returning the value itself
pub fn lex_fold_value(f: Fmt, s: &str) -> Option<Narsese> {
    match observe(|| -> Option<Narsese> {
        let lx: LexNarsese = f.l().parse(s).ok()?;
        lx.try_fold_into(f.e()).ok()
    }) {
        Obs::Ret(v) => v,
        Obs::Panic(_) => None,
    }
}

/// format a built value with the enum formatter
/// `parse_multi` fed through one of several kinds of iterable (chosen from the batch itself, so a
/// replay takes the same one): a Vec, a mapped slice iterator, a filtered one (lower size hint 0),
/// `from_fn` (no upper size hint), or - when no input contains a line break - the lines of one text
pub fn parse_multi_any<'a>(e: &'a EnumFormat<&'static str>, seq: &'a [String], joined: &'a mut String) -> Vec<Result<Narsese, narsese::conversion::string::impl_enum::ParseError>> {
    let kind = (seq.len() + seq.first().map_or(0, |s| s.len())) % 5;
    match kind {
        0 => e.parse_multi(seq.iter().map(|s| s.as_str()).collect::<Vec<&str>>()),
        1 => e.parse_multi(seq.iter().map(|s| s.as_str())),
        2 => e.parse_multi(seq.iter().map(|s| s.as_str()).filter(|_| true)),
        3 => {
            let mut it = seq.iter();
            e.parse_multi(std::iter::from_fn(move || it.next().map(|s| s.as_str())))
        }
        _ => {
            if seq.is_empty() || seq.iter().any(|s| s.is_empty() || s.contains('\n') || s.ends_with('\r')) {
                e.parse_multi(seq.iter().map(|s| s.as_str()).skip_while(|_| false))
            } else {
                *joined = seq.join("\n");
                e.parse_multi(joined.lines())
            }
        }
    }
}

/// One `parse_multi` call over *slices of one buffer that start at the same address*: growing and
/// shrinking prefixes of `full` (cut at character boundaries) and `full` itself.  Returns, per
/// slice, (the slice as a String, outcome class of the batch, outcome class alone); None on a panic.
pub fn prefix_slice_batch(f: Fmt, full: &str) -> Option<Vec<(String, String, String)>> {
    let bounds: Vec<usize> = full.char_indices().map(|(i, _)| i).chain(std::iter::once(full.len())).collect();
    if bounds.len() < 3 {
        return Some(vec![]);
    }
    let n = bounds.len() - 1;
    let cuts = [n, n - 1, n, n * 2 / 3, n, 0, n / 2, n];
    let slices: Vec<&str> = cuts.iter().map(|c| &full[..bounds[*c]]).collect();
    let class = |r: &Result<Narsese, narsese::conversion::string::impl_enum::ParseError>| match r {
        Ok(v) => format!("Ok({})", canon_real_narsese(v)),
        Err(_) => "Err".to_string(),
    };
    let batch = match observe(|| f.e().parse_multi(slices.iter().copied()).iter().map(class).collect::<Vec<_>>()) {
        Obs::Ret(v) => v,
        Obs::Panic(_) => return None,
    };
    let mut out = vec![];
    for (i, s) in slices.iter().enumerate() {
        let alone = match observe(|| class(&f.e().parse::<Narsese>(s))) {
            Obs::Ret(c) => c,
            Obs::Panic(_) => return None,
        };
        out.push((s.to_string(), batch.get(i).cloned().unwrap_or_else(|| "nothing".into()), alone));
    }
    Some(out)
}

pub fn enum_format(f: Fmt, v: &Narsese) -> Result<String, String> {
    match observe(|| f.e().format_narsese(v)) {
        Obs::Ret(s) => Ok(s),
        Obs::Panic(p) => Err(p),
    }
}

pub fn jstr(j: &J, k: &str) -> Option<String> {
    j.get(k).and_then(|v| v.as_str()).map(|s| s.to_string())
}

pub fn fmt_of(j: &J) -> Option<Fmt> {
    Fmt::from_name(j.get("format")?.as_str()?)
}

/// parse "0.5"-style debug floats back (replay files store `{:?}` of f64)
pub fn parse_f64_debug(s: &str) -> Option<f64> {
    match s {
        "NaN" => Some(f64::NAN),
        "inf" => Some(f64::INFINITY),
        "-inf" => Some(f64::NEG_INFINITY),
        _ => s.parse().ok(),
    }
}

pub fn nd_from_json(j: &J) -> Option<ND> {
    let kind = j.get("kind")?.as_str()?;
    let sd_from = |s: &J| -> Option<SD> {
        let term = TD::from_json(s.get("term")?)?;
        let punct = match s.get("punct")?.as_str()? {
            "." => PunctD::Judgement,
            "!" => PunctD::Goal,
            "?" => PunctD::Question,
            _ => PunctD::Quest,
        };
        let st = s.get("stamp")?.as_str()?;
        let stamp = match st {
            "eternal" => StampD::Eternal,
            "past" => StampD::Past,
            "present" => StampD::Present,
            "future" => StampD::Future,
            x => StampD::Fixed(x.strip_prefix("fixed")?.parse().ok()?),
        };
        let truth = s
            .get("truth")?
            .as_arr()?
            .iter()
            .map(|x| x.as_str().and_then(parse_f64_debug))
            .collect::<Option<Vec<f64>>>()?;
        Some(SD { term, punct, stamp, truth })
    };
    match kind {
        "term" => Some(ND::Term(TD::from_json(j.get("term")?)?)),
        "sentence" => Some(ND::Sent(sd_from(j.get("sentence")?)?)),
        "task" => {
            let t = j.get("task")?;
            let sent = sd_from(t.get("sentence")?)?;
            let budget = t
                .get("budget")?
                .as_arr()?
                .iter()
                .map(|x| x.as_str().and_then(parse_f64_debug))
                .collect::<Option<Vec<f64>>>()?;
            Some(ND::Task(KD { sent, budget }))
        }
        _ => None,
    }
}

/// wrap a term description into a rotating sentence / task wrapper (deterministic in `i`)
pub fn wrap_rotating(t: TD, i: usize) -> ND {
    let floats = &SPECIAL_FLOATS;
    let f = |k: usize| floats[(i / 7 + k) % floats.len()];
    let punct = ALL_PUNCT[(i / 3) % 4];
    let stamp = match (i / 12) % 7 {
        0 => StampD::Eternal,
        1 => StampD::Past,
        2 => StampD::Present,
        3 => StampD::Future,
        4 => StampD::Fixed(SPECIAL_TIMES[(i / 84) % SPECIAL_TIMES.len()]),
        5 => StampD::Fixed(-(i as isize)),
        _ => StampD::Eternal,
    };
    let truth: Vec<f64> = if punct.has_truth() { (0..(i / 5) % 3).map(f).collect() } else { vec![] };
    match i % 3 {
        0 => ND::Term(t),
        1 => ND::Sent(SD { term: t, punct, stamp, truth }),
        _ => {
            let budget: Vec<f64> = (0..(i / 2) % 4).map(|k| f(k + 3)).collect();
            ND::Task(KD { sent: SD { term: t, punct, stamp, truth }, budget })
        }
    }
}

/// What a many-threads-at-once phase observed.
pub struct Concurrent {
    pub threads: usize,
    pub calls: u64,
    pub kept: usize,
    pub failure: Option<String>,
}

/// Many threads inside the library at the same time.  Every case is first evaluated alone on the calling
/// thread and dropped unless it holds there, so whatever fails in the concurrent phase fails *because*
/// other threads were inside the library (or because the outcome is not a function of the input at all).
/// Two threads per core start together behind a barrier; every thread walks all cases `rounds` times in
/// its own rotation, so that neighbouring threads are in different cases of the same entry points.
pub fn many_threads_at_once<C: Send + Sync + 'static>(cases: Vec<C>, rounds: usize, job: fn(&C) -> Option<String>) -> Concurrent {
    use std::sync::atomic::{AtomicBool, AtomicU64, Ordering};
    use std::sync::{Arc, Mutex};
    let cases: Vec<C> = cases.into_iter().filter(|c| matches!(std::panic::catch_unwind(std::panic::AssertUnwindSafe(|| job(c))), Ok(None))).collect();
    let kept = cases.len();
    let nthreads = 2 * std::thread::available_parallelism().map(|n| n.get()).unwrap_or(4).clamp(4, 16);
    if kept == 0 {
        return Concurrent { threads: nthreads, calls: 0, kept, failure: None };
    }
    let cases = Arc::new(cases);
    // ... plus a few threads that do nothing but work through *other* vocabularies meanwhile (the three
    // shipped formats and their permuted-vocabulary copies: 18 enum vocabularies, re-folded lexical values,
    // a hash), so that whatever the library shares between formats - a table cache with a handful of
    // slots, an interner - is being refilled by somebody else while the workers depend on it
    const NOISE: usize = 6;
    // (a flag, not a Barrier: a thread that could not be started must not leave the others waiting for ever)
    let barrier = Arc::new(AtomicBool::new(false));
    let done = Arc::new(AtomicBool::new(false));
    let noise: Vec<_> = (0..NOISE)
        .filter_map(|ni| {
            let (barrier, done) = (barrier.clone(), done.clone());
            std::thread::Builder::new()
                .stack_size(16 << 20)
                .spawn(move || {
                    while !barrier.load(Ordering::Acquire) {
                        std::thread::yield_now();
                    }
                    let mut i = ni;
                    const ALTS: [&str; 8] = ["~", "=>", "isa", "-->>", "is-a>", "=isa=>", "\u{2282}", "\u{662f}\u{4e00}\u{4e2a}"];
                    while !done.load(Ordering::Relaxed) {
                        let g = crate::names::ALL_FMT[i % 3];
                        prelude(g);
                        // ... and formats that differ from a shipped one in one copula, of eight different lengths
                        let _ = observe(|| {
                            let mut uf = permuted_formats(g).swap_remove(0);
                            uf.statement.copula_inheritance = ALTS[(i / 3) % ALTS.len()];
                            let text = format!("{}A {} B{}", uf.statement.brackets.0, uf.statement.copula_inheritance, uf.statement.brackets.1);
                            let _ = uf.parse::<Narsese>(&text);
                        });
                        // ... and user-built lexical formats with other character predicates (total ones)
                        let _ = observe(|| {
                            use narsese::conversion::string::impl_lexical::format_instances::*;
                            fn letters_only(c: char) -> bool {
                                c.is_alphabetic()
                            }
                            fn digits_only(c: char) -> bool {
                                c.is_ascii_digit() || c == '-'
                            }
                            let mut lf = match g {
                                Fmt::Ascii => create_format_ascii(),
                                Fmt::Latex => create_format_latex(),
                                Fmt::Han => create_format_han(),
                            };
                            lf.atom.is_identifier = letters_only;
                            lf.sentence.is_stamp_content = digits_only;
                            let e = g.e();
                            let text = format!("{}ab{} cd{}{} {}12{}", e.compound.brackets_set_extension.0, e.compound.separator, e.compound.brackets_set_extension.1, e.sentence.punctuation_judgement, e.sentence.stamp_brackets.0.to_string() + e.sentence.stamp_fixed, e.sentence.stamp_brackets.1);
                            let _ = lf.parse(&text);
                            let _ = lf.parse_term(&text);
                        });
                        i += 1;
                    }
                })
                .ok()
        })
        .collect();
    let stop = Arc::new(AtomicBool::new(false));
    let calls = Arc::new(AtomicU64::new(0));
    let first = Arc::new(Mutex::new(None::<String>));
    let hs: Vec<_> = (0..nthreads)
        .filter_map(|ti| {
            let (cases, barrier, stop, calls, first) = (cases.clone(), barrier.clone(), stop.clone(), calls.clone(), first.clone());
            std::thread::Builder::new()
                .stack_size(16 << 20)
                .spawn(move || {
                    while !barrier.load(Ordering::Acquire) {
                        std::thread::yield_now();
                    }
                    let n = cases.len();
                    let mut mine = 0u64;
                    'all: for r in 0..rounds {
                        for i in 0..n {
                            if stop.load(Ordering::Relaxed) {
                                break 'all;
                            }
                            let idx = (i * 7 + ti * 3 + r) % n;
                            let out = std::panic::catch_unwind(std::panic::AssertUnwindSafe(|| job(&cases[idx])));
                            mine += 1;
                            let why = match out {
                                Ok(None) => continue,
                                Ok(Some(w)) => w,
                                Err(p) => format!("panicked: {}", crate::guard::payload_text(&p)),
                            };
                            if let Ok(mut g) = first.lock() {
                                g.get_or_insert(format!("thread {} of {}, round {}: {}", ti, nthreads, r, why));
                            }
                            stop.store(true, Ordering::Relaxed);
                            break 'all;
                        }
                    }
                    calls.fetch_add(mine, Ordering::Relaxed);
                })
                .ok()
        })
        .collect();
    barrier.store(true, Ordering::Release);
    for h in hs {
        let _ = h.join();
    }
    done.store(true, Ordering::Relaxed);
    for h in noise {
        let _ = h.join();
    }
    let failure = first.lock().ok().and_then(|g| g.clone());
    Concurrent { threads: nthreads, calls: calls.load(Ordering::Relaxed), kept, failure }
}

/// run one concurrent phase and report: `sig_prefix|concurrent|<label>`; the witness asks for a re-run of the fixed families
pub fn concurrent_family<C: Send + Sync + 'static>(ctx: &mut crate::Ctx, prop: &str, label: &str, cases: Vec<C>, rounds: usize, job: fn(&C) -> Option<String>) {
    ctx.report.eval();
    ctx.report.bump("family.many-threads-at-once");
    let c = many_threads_at_once(cases, rounds, job);
    ctx.report.bump_by("many-threads-at-once.calls", c.calls);
    ctx.report.hist_max("max.threads_at_once", c.threads as u64);
    if let Some(w) = c.failure {
        ctx.report.violate(
            format!("{}|concurrent|{}", prop, label),
            format!("[{}] holds for each of {} cases alone, fails while {} threads work through them at the same time: {}", label, c.kept, c.threads, w.chars().take(500).collect::<String>()),
            J::obj().set("concurrent", true).set("label", label).set("why", w),
        );
    }
}

/// Inputs of format `f` that the enum parser rejects, each failing at a different point: inside an atom
/// name (an interval that is not a number, one that overflows), inside an unclosed compound / set /
/// statement, in a truth, budget or stamp that never closes, after a complete term.  Computed once.
pub fn rejected_inputs(f: Fmt) -> &'static [String] {
    static CACHE: std::sync::OnceLock<Vec<Vec<String>>> = std::sync::OnceLock::new();
    let all = CACHE.get_or_init(|| {
        crate::names::ALL_FMT
            .iter()
            .map(|f| {
                let e = f.e();
                let mut v: Vec<String> = vec![
                    format!("{}12x", e.atom.prefix_interval),
                    format!("{}99999999999999999999999999999999", e.atom.prefix_interval),
                    format!("{}{} A{} {}12x{}", e.compound.brackets.0, e.compound.connecter_conjunction_sequential, e.compound.separator, e.atom.prefix_interval, e.compound.brackets.1),
                    format!("{}{}{} abc{} def", e.compound.brackets.0, e.compound.connecter_product, e.compound.separator, e.compound.separator),
                    format!("{}abc{} def", e.compound.brackets_set_extension.0, e.compound.separator),
                    format!("{}abc {} def", e.statement.brackets.0, e.statement.copula_inheritance),
                    format!("{}abc {}", e.statement.brackets.0, e.statement.copula_similarity),
                    format!("abc{} {}1{}0.9", e.sentence.punctuation_judgement, e.sentence.truth_brackets.0, e.sentence.truth_separator),
                    format!("{}0.5{}0.5 abc{}", e.task.budget_brackets.0, e.task.budget_separator, e.sentence.punctuation_goal),
                    format!("abc{} {}12x", e.sentence.punctuation_question, e.sentence.stamp_fixed),
                    format!("{}abc{}xyz", e.atom.prefix_variable_query, e.compound.brackets.1),
                    format!("{}0.5{} {}0.7{}", e.task.budget_brackets.0, e.task.budget_brackets.1, e.sentence.truth_brackets.0, e.sentence.truth_brackets.1),
                    format!("{}", e.sentence.punctuation_goal),
                ];
                v.retain(|s| matches!(enum_parse(*f, s), Out::Err(_)));
                v
            })
            .collect()
    });
    &all[crate::names::ALL_FMT.iter().position(|x| *x == f).unwrap()]
}

fn poke_char_pred(c: char) -> bool {
    if c == '\u{2620}' {
        panic!("user-supplied character predicate gives up");
    }
    c.is_alphanumeric() || c == '_'
}

/// Something goes wrong on this thread before the next case: step `i` picks a format and one of its
/// rejected inputs for the enum parser and for the lexical parser (+ fold), a refused mutation, and every
/// 8th time a *caught panic* inside the library - a user-built format whose character predicate panics in
/// the middle of an atom name, a user iterator that panics after its first item inside `parse_multi`
/// and inside the image constructors.  Nothing is checked here: the case that follows is.
pub fn something_fails_first(i: usize) {
    let f = crate::names::ALL_FMT[i % 3];
    let pool = rejected_inputs(f);
    if pool.is_empty() {
        return;
    }
    let s = &pool[(i / 3) % pool.len()];
    let _ = observe(|| {
        let _ = f.e().parse::<Narsese>(s);
        if let Ok(lx) = f.l().parse(s) {
            let _: Result<Narsese, _> = lx.try_fold_into(f.e());
        }
        if let Ok(t) = f.l().parse_term(s) {
            let _: Result<narsese::enum_narsese::Term, _> = t.try_fold_into(f.e());
        }
        let mut t = narsese::enum_narsese::Term::new_interval(7);
        let _ = t.set_atom_name("18446744073709551616");
        let mut w = narsese::enum_narsese::Term::new_word("w");
        let _ = w.set_atom_name("");
    });
    if i % 8 == 0 {
        let _ = observe(|| {
            let mut uf = match f {
                Fmt::Ascii => narsese::conversion::string::impl_enum::format_instances::FORMAT_ASCII,
                Fmt::Latex => narsese::conversion::string::impl_enum::format_instances::FORMAT_LATEX,
                Fmt::Han => narsese::conversion::string::impl_enum::format_instances::FORMAT_HAN,
            };
            uf.is_valid_atom_name = poke_char_pred;
            let _ = uf.parse::<Narsese>(&format!("{}ab\u{2620}c {} d{}", uf.statement.brackets.0, uf.statement.copula_inheritance, uf.statement.brackets.1));
        });
        let _ = observe(|| {
            let good = format!("{}abc{} def{}", f.e().compound.brackets_set_extension.0, f.e().compound.separator, f.e().compound.brackets_set_extension.1);
            let mut n = 0;
            let it = std::iter::from_fn(|| {
                n += 1;
                if n > 2 {
                    panic!("user iterator gives up");
                }
                Some(good.as_str())
            });
            let _ = f.e().parse_multi(it);
        });
        let _ = observe(|| {
            use narsese::enum_narsese::Term;
            let mut n = 0;
            let it = std::iter::from_fn(|| {
                n += 1;
                if n > 2 {
                    panic!("user iterator gives up");
                }
                Some(Term::new_word(["r", "x", "y"][n % 3]))
            });
            let _ = Term::new_product(it);
        });
        // user-built lexical formats whose blank / identifier / stamp predicates panic in the middle of an input
        for which in 0..5 {
            let _ = observe(|| {
                use narsese::conversion::string::impl_lexical::format_instances::*;
                let mut lf = match f {
                    Fmt::Ascii => create_format_ascii(),
                    Fmt::Latex => create_format_latex(),
                    Fmt::Han => create_format_han(),
                };
                fn blank(c: char) -> bool {
                    if c == '\u{2620}' {
                        panic!("user-supplied blank predicate gives up");
                    }
                    c.is_whitespace()
                }
                match which {
                    0 => lf.space.is_for_parse = blank,
                    1 => lf.atom.is_identifier = poke_char_pred,
                    2 => lf.sentence.is_stamp_content = poke_char_pred,
                    3 => lf.sentence.is_truth_content = poke_char_pred,
                    _ => lf.task.is_budget_content = poke_char_pred,
                }
                let e = f.e();
                let text = format!("{}ab {} cd\u{2620}ef{}{} {}12\u{2620}", e.statement.brackets.0, e.statement.copula_inheritance, e.statement.brackets.1, e.sentence.punctuation_judgement, e.sentence.stamp_fixed);
                let _ = lf.parse(&text);
                let _ = lf.parse_term(&text);
                let text2 = format!("{}0\u{2620}5{} ab{} {}1\u{2620}9{}", e.task.budget_brackets.0, e.task.budget_brackets.1, e.sentence.punctuation_judgement, e.sentence.truth_brackets.0, e.sentence.truth_brackets.1);
                let _ = lf.parse(&text2);
            });
        }
        let _ = observe(|| {
            // a user-supplied Hasher that gives up in the middle of hashing a term with unordered parts
            use narsese::enum_narsese::Term;
            struct Budgeted(usize);
            impl std::hash::Hasher for Budgeted {
                fn finish(&self) -> u64 {
                    0
                }
                fn write(&mut self, bytes: &[u8]) {
                    if self.0 < bytes.len() {
                        panic!("user hasher gives up");
                    }
                    self.0 -= bytes.len();
                }
            }
            let inner = Term::new_set_extension(vec![Term::new_word("p"), Term::new_word("q"), Term::new_word("r")]);
            let t = Term::new_intersection_extension(vec![inner, Term::new_similarity(Term::new_word("s"), Term::new_word("t")), Term::new_word("u")]);
            for budget in [1usize, 9, 17, 40, 90] {
                let t = &t;
                let _ = std::panic::catch_unwind(std::panic::AssertUnwindSafe(move || {
                    let mut h = Budgeted(budget);
                    std::hash::Hash::hash(t, &mut h);
                }));
            }
        });
        let _ = observe(|| {
            // the public string templates all formatters share, fed by a user iterator that panics after two items
            let mut out = String::new();
            let mut n = 0;
            let it = std::iter::from_fn(|| {
                n += 1;
                if n > 2 {
                    panic!("user iterator gives up");
                }
                Some(format!("X{}", n))
            });
            narsese::conversion::string::template_compound(&mut out, "(", "*", it, ",", " ", ")");
        });
        let _ = observe(|| {
            use narsese::enum_narsese::Term;
            let _ = Term::to_image_extension_with_placeholder(vec![Term::new_word("r"), Term::new_word("x")]);
            let _ = Term::to_image_intension_with_placeholder(vec![Term::new_word("r"), Term::new_word("x")]);
        });
    }
}


/// `something_fails_first` for callers without a context: every `every`-th call on this thread does it
pub fn something_fails_first_every(every: usize) {
    thread_local! { static N: std::cell::Cell<usize> = const { std::cell::Cell::new(0) }; }
    let n = N.with(|c| {
        let v = c.get();
        c.set(v + 1);
        v
    });
    if n % every.max(1) == 0 {
        something_fails_first(n / every.max(1));
    }
}
