//! C16 — Typst rendering is total, whitespace-normalised and unambiguous.
//!
//! Stream monitor: a map rendered-text -> canonical key over everything observed by this shard;
//! the same text under two different keys is a collision (checks all pairs at O(N) cost).

use super::common::*;
use crate::desc::*;
use crate::guard::{observe, Obs};
use crate::json::J;
use crate::names::*;
use crate::rng::{fnv64, Rng};
use crate::Ctx;
use narsese::conversion::string::typst_formatter::FormatterTypst;
use narsese::enum_narsese::Narsese;
use std::collections::HashMap;

#[derive(Clone)]
pub enum Item {
    N(ND),
    Truth(Vec<f64>),
    Budget(Vec<f64>),
    Stamp(StampD),
    Punct(PunctD),
}

impl Item {
    fn key(&self) -> String {
        match self {
            Item::N(n) => format!("narsese:{}", n.canon()),
            Item::Truth(v) => format!("truth:{}", bits(v)),
            Item::Budget(v) => format!("budget:{}", bits(v)),
            Item::Stamp(s) => format!("stamp:{}", s.canon()),
            Item::Punct(p) => format!("punct:{}", p.tag()),
        }
    }
    fn namespace(&self) -> &'static str {
        match self {
            Item::N(_) => "narsese",
            Item::Truth(_) => "truth",
            Item::Budget(_) => "budget",
            Item::Stamp(_) => "stamp",
            Item::Punct(_) => "punct",
        }
    }
    fn render(&self) -> Result<String, String> {
        let r = observe(|| match self {
            Item::N(n) => match n.build() {
                Narsese::Term(t) => FormatterTypst.format(&t),
                Narsese::Sentence(s) => FormatterTypst.format(&s),
                Narsese::Task(k) => FormatterTypst.format(&k),
            },
            Item::Truth(v) => FormatterTypst.format(&build_truth(v)),
            Item::Budget(v) => FormatterTypst.format(&build_budget(v)),
            Item::Stamp(s) => FormatterTypst.format(&s.build()),
            Item::Punct(p) => FormatterTypst.format(&p.build()),
        });
        match r {
            Obs::Ret(s) => Ok(s),
            Obs::Panic(p) => Err(p),
        }
    }
    fn to_json(&self) -> J {
        match self {
            Item::N(n) => J::obj().set("item", "narsese").set("value", n.to_json()),
            Item::Truth(v) => J::obj().set("item", "truth").set("values", J::Arr(v.iter().map(|f| J::Str(format!("{:?}", f))).collect())),
            Item::Budget(v) => J::obj().set("item", "budget").set("values", J::Arr(v.iter().map(|f| J::Str(format!("{:?}", f))).collect())),
            Item::Stamp(s) => J::obj().set("item", "stamp").set("stamp", s.canon()),
            Item::Punct(p) => J::obj().set("item", "punct").set("punct", p.tag()),
        }
    }
    fn from_json(j: &J) -> Option<Item> {
        let floats = |j: &J| -> Option<Vec<f64>> { j.get("values")?.as_arr()?.iter().map(|x| x.as_str().and_then(parse_f64_debug)).collect() };
        match j.get("item")?.as_str()? {
            "narsese" => Some(Item::N(nd_from_json(j.get("value")?)?)),
            "truth" => Some(Item::Truth(floats(j)?)),
            "budget" => Some(Item::Budget(floats(j)?)),
            "stamp" => {
                let st = j.get("stamp")?.as_str()?;
                Some(Item::Stamp(match st {
                    "eternal" => StampD::Eternal,
                    "past" => StampD::Past,
                    "present" => StampD::Present,
                    "future" => StampD::Future,
                    x => StampD::Fixed(x.strip_prefix("fixed")?.parse().ok()?),
                }))
            }
            "punct" => Some(Item::Punct(match j.get("punct")?.as_str()? {
                "." => PunctD::Judgement,
                "!" => PunctD::Goal,
                "?" => PunctD::Question,
                _ => PunctD::Quest,
            })),
            _ => None,
        }
    }
}

fn whitespace_defect(s: &str) -> Option<String> {
    if s != s.trim() {
        return Some("leading or trailing whitespace".into());
    }
    let cs: Vec<char> = s.chars().collect();
    for w in cs.windows(2) {
        if w[0].is_whitespace() && w[1].is_whitespace() {
            return Some("two adjacent whitespace characters".into());
        }
    }
    None
}

fn token_multiset(s: &str) -> Vec<String> {
    let mut v: Vec<String> = s.split_whitespace().map(|x| x.to_string()).collect();
    v.sort();
    v
}

pub struct Monitor {
    /// rendered-text fingerprint -> (key fingerprint, item) ; items are kept for witnesses while small
    seen: HashMap<(u8, u64), (u64, Option<Item>)>,
    keep_items: usize,
}

impl Monitor {
    pub fn new() -> Monitor {
        Monitor { seen: HashMap::new(), keep_items: 60_000 }
    }

    pub fn observe(&mut self, ctx: &mut Ctx, item: &Item, family: &str) {
        // every 64th time something fails on this thread first (among other things a user iterator that
        // panics inside the public string templates the renderer shares with the other formatters)
        something_fails_first_every(64);
        ctx.report.eval();
        ctx.report.bump(&format!("family.{}", family));
        ctx.report.bump(&format!("namespace.{}", item.namespace()));
        let key = item.key();
        let text = match item.render() {
            Ok(t) => t,
            Err(p) => {
                ctx.report.violate(format!("C16|panic|{}", crate::guard::panic_site(&p)), format!("rendering panicked: {} for {}", p, key), item.to_json().set("why", p.clone()));
                return;
            }
        };
        ctx.report.sample(|| J::obj().set("value", key.clone()).set("typst", text.clone()));
        if let Item::N(n) = item {
            if !n.term().kids.is_empty() {
                ctx.report.nontrivial(&key);
            }
            n.term().visit(&mut |t| {
                if t.k.cat() != Cat::Atom {
                    let layout = match (t.k.shape(), t.kids.len() + if t.k.shape() == Shape::Image { 1 } else { 0 }) {
                        (Shape::SetN, _) if matches!(t.k, Kind::SetExt | Kind::SetInt) => "bracket-only",
                        (_, 2) => "infix",
                        _ => "prefix",
                    };
                    ctx.report.bump(&format!("layout.{}", layout));
                }
            });
        } else {
            ctx.report.nontrivial(&key);
        }
        if let Some(w) = whitespace_defect(&text) {
            ctx.report.violate(format!("C16|whitespace|{}|{}", w, key), format!("{} in {:?} (value {})", w, text, key), item.to_json().set("why", w.clone()).set("text", text.clone()));
        }
        // injectivity
        let ns = match item {
            Item::N(_) => 0u8,
            Item::Truth(_) => 1,
            Item::Budget(_) => 2,
            Item::Stamp(_) => 3,
            Item::Punct(_) => 4,
        };
        // compare on a canonical ordering of unordered components: the sorted token multiset would be
        // too coarse for injectivity, so texts are compared exactly and, for values containing
        // unordered compounds, additionally by sorted-token fingerprint in a second namespace.
        let tfp = fnv64(text.as_bytes());
        let kfp = fnv64(key.as_bytes());
        // witness rebuild for the cross-shard merge: the driver names canonical-key fingerprints and this
        // worker (same seed, shard and build as the one that recorded them) writes the items out
        if let Some(want) = find_set() {
            if want.contains(&kfp) {
                use std::io::Write;
                if let Ok(mut f) = std::fs::OpenOptions::new().create(true).append(true).open(format!("{}/find-{}.jsonl", ctx.out_dir, ctx.shard)) {
                    let _ = writeln!(f, "{}", J::obj().set("kfp", kfp.to_string()).set("ns", ns as usize).set("text", text.clone()).set("key", key.clone()).set("item", item.to_json()).to_string());
                }
            }
        }
        // witnesses are kept for the first items and only while they are small (memory)
        let small = match item {
            Item::N(n) => n.term().size() <= 30,
            _ => true,
        };
        let keep = if self.seen.len() < self.keep_items && small { Some(item.clone()) } else { None };
        match self.seen.get(&(ns, tfp)) {
            Some((other_k, other_item)) => {
                // VERIF_C16_ONLINE=0 is the self-test knob of the offline merge: the online report is skipped so
                // that a collision can only be found across the workers' logs (never set by a registered command)
                if *other_k != kfp && std::env::var("VERIF_C16_ONLINE").as_deref() != Ok("0") {
                    let other_desc = other_item.as_ref().map(|i| i.key()).unwrap_or_else(|| "<not kept>".into());
                    let mut ks = vec![key.clone(), other_desc.clone()];
                    ks.sort();
                    ctx.report.violate(
                        format!("C16|collision|{}|{}", ks[0], ks[1]),
                        format!("two different values render to the same text {:?}: {} and {}", text, key, other_desc),
                        J::obj()
                            .set("a", item.to_json())
                            .set("b", other_item.as_ref().map(|i| i.to_json()).unwrap_or(J::Null))
                            .set("text", text.clone())
                            .set("why", "collision"),
                    );
                }
            }
            None => {
                self.seen.insert((ns, tfp), (kfp, keep));
            }
        }
    }
}

fn find_set() -> Option<&'static std::collections::HashSet<u64>> {
    static FIND: std::sync::OnceLock<Option<std::collections::HashSet<u64>>> = std::sync::OnceLock::new();
    FIND.get_or_init(|| std::env::var("VERIF_C16_FIND").ok().map(|s| s.split(',').filter_map(|x| x.trim().parse().ok()).collect()))
        .as_ref()
}

impl Monitor {
    /// the event log of this worker for the offline, cross-shard injectivity check: one record
    /// (text fingerprint mixed with the namespace, canonical-key fingerprint) per distinct text
    pub fn write_log(&self, path: &str) -> std::io::Result<usize> {
        use std::io::Write;
        let mut v: Vec<(u64, u64)> = self.seen.iter().map(|((ns, tfp), (kfp, _))| (tfp ^ (*ns as u64).wrapping_mul(0x9E37_79B9_7F4A_7C15), *kfp)).collect();
        v.sort_unstable();
        let mut f = std::io::BufWriter::new(std::fs::File::create(path)?);
        for (t, k) in &v {
            f.write_all(&t.to_le_bytes())?;
            f.write_all(&k.to_le_bytes())?;
        }
        f.flush()?;
        Ok(v.len())
    }
}

/// equal values built in different orders render to the same token multiset
fn order_check(ctx: &mut Ctx, t: &TD, rng: &mut Rng) {
    let v = super::c06::rewrite_equal(t, rng);
    if v.canon() != t.canon() {
        return;
    }
    let a = Item::N(ND::Term(t.clone())).render();
    let b = Item::N(ND::Term(v.clone())).render();
    ctx.report.bump("order-variants compared");
    if let (Ok(a), Ok(b)) = (a, b) {
        if token_multiset(&a) != token_multiset(&b) {
            ctx.report.violate(
                format!("C16|order|{}", t.canon()),
                format!("equal values render to different token multisets: {:?} vs {:?}", a, b),
                J::obj().set("a", Item::N(ND::Term(t.clone())).to_json()).set("b", Item::N(ND::Term(v)).to_json()).set("why", "order"),
            );
        }
    }
}

pub fn run(ctx: &mut Ctx) {
    let mut mon = Monitor::new();
    // items other than narsese values: exhaustive small sets
    if ctx.shard == 0 {
        for p in ALL_PUNCT {
            mon.observe(ctx, &Item::Punct(p), "punctuation");
        }
        for s in [StampD::Eternal, StampD::Past, StampD::Present, StampD::Future] {
            mon.observe(ctx, &Item::Stamp(s), "stamp");
        }
        for t in SPECIAL_TIMES.iter().chain([2isize, 10, -10, 100].iter()) {
            mon.observe(ctx, &Item::Stamp(StampD::Fixed(*t)), "stamp");
        }
        // neighbouring large times (a float detour would merge them), standalone and inside sentences
        for base in [1isize << 53, (1 << 53) + 2, 1 << 60, 1 << 62, isize::MAX - 3, isize::MIN + 1, 1_790_380_800_000_000_000, -(1 << 53) - 4, 999_999_999_999_999_999] {
            for d in 0..3isize {
                let t = base.saturating_add(d);
                mon.observe(ctx, &Item::Stamp(StampD::Fixed(t)), "stamp-neighbours");
                let sd = SD { term: TD::word("A"), punct: PunctD::Judgement, stamp: StampD::Fixed(t), truth: vec![] };
                mon.observe(ctx, &Item::N(ND::Sent(sd.clone())), "stamp-neighbours");
                mon.observe(ctx, &Item::N(ND::Task(KD { sent: sd, budget: vec![0.5] })), "stamp-neighbours");
            }
        }
        let fl = SPECIAL_FLOATS;
        mon.observe(ctx, &Item::Truth(vec![]), "truth");
        mon.observe(ctx, &Item::Budget(vec![]), "budget");
        for a in fl {
            mon.observe(ctx, &Item::Truth(vec![a]), "truth");
            mon.observe(ctx, &Item::Budget(vec![a]), "budget");
            for b in fl {
                mon.observe(ctx, &Item::Truth(vec![a, b]), "truth");
                mon.observe(ctx, &Item::Budget(vec![a, b]), "budget");
                for c in [0.0, 0.5, 1.0, 0.1] {
                    mon.observe(ctx, &Item::Budget(vec![a, b, c]), "budget");
                }
            }
        }
    }
    // bounded-exhaustive universe: every constructor with arity 1,2,3 (layout switch)
    let base = base_atoms(&["A", "B"]);
    let mut items: Vec<TD> = base.clone();
    items.push(TD::placeholder());
    items.push(TD::interval(0));
    items.extend(universe_over(&base, 3, true));
    // NOTE every shard observes the whole universe: collisions are only visible inside one monitor
    let small = items.clone();
    for (i, t) in small.iter().enumerate() {
        mon.observe(ctx, &Item::N(ND::Term(t.clone())), "universe1");
        if i % 7 == ctx.shard % 7 {
            mon.observe(ctx, &Item::N(wrap_rotating(t.clone(), i * 3 + 1)), "universe1-sentences");
            mon.observe(ctx, &Item::N(wrap_rotating(t.clone(), i * 3 + 2)), "universe1-tasks");
        }
    }
    // names that stress the escaping of the renderer: every concatenation of up to three pieces out of
    // backslash, quote, NUL, other control characters, braces and the letters escapes are made of
    // (no whitespace: see the assumptions).  Every worker renders all of them, so two names whose
    // renderings collide meet in one monitor.
    {
        let pieces = ["\\", "\"", "\0", "0", "u{0}", "{", "}", "'", "\u{7f}", "\u{1b}", "n", "x", "u", "\u{e000}", "#", "$"];
        let mut hostile: Vec<String> = vec![];
        for a in pieces {
            hostile.push(a.to_string());
            for b in pieces {
                hostile.push(format!("{}{}", a, b));
                for c in pieces {
                    hostile.push(format!("{}{}{}", a, b, c));
                }
            }
        }
        hostile.sort();
        hostile.dedup();
        for (i, n) in hostile.iter().enumerate() {
            let k = NAMED_ATOM_KINDS[i % NAMED_ATOM_KINDS.len()];
            mon.observe(ctx, &Item::N(ND::Term(TD::atom(Kind::Word, n))), "escape-hostile-names");
            if i % 3 == 0 {
                mon.observe(ctx, &Item::N(ND::Term(TD::bin(Kind::Inh, TD::atom(k, n), TD::word("A")))), "escape-hostile-names");
            }
        }
    }
    // rendering from a thread-local destructor at thread exit (a per-thread report buffer flushed when the
    // thread ends): registered before and after the thread's first render
    if ctx.shard < 6 {
        use narsese::enum_narsese::Term;
        use std::sync::mpsc;
        thread_local! {
            static FLUSH: std::cell::RefCell<Option<RenderAtExit>> = const { std::cell::RefCell::new(None) };
        }
        struct RenderAtExit(mpsc::Sender<Result<String, String>>);
        impl Drop for RenderAtExit {
            fn drop(&mut self) {
                let t = Term::new_inheritance(Term::new_word("a"), Term::new_set_extension(vec![Term::new_word("b")]));
                let r = std::panic::catch_unwind(|| FormatterTypst.format(&t));
                let _ = self.0.send(r.map_err(|_| "rendering panicked inside a thread-local destructor at thread exit".to_string()));
            }
        }
        for register_first in [true, false] {
            ctx.report.eval();
            ctx.report.bump("family.render-at-thread-exit");
            let (tx, rx) = mpsc::channel();
            crate::guard::install_panic_hook();
            let h = std::thread::spawn(move || {
                let t = Term::new_word("w");
                if register_first {
                    FLUSH.with(|f| *f.borrow_mut() = Some(RenderAtExit(tx.clone())));
                    let _ = FormatterTypst.format(&t);
                } else {
                    let _ = FormatterTypst.format(&t);
                    FLUSH.with(|f| *f.borrow_mut() = Some(RenderAtExit(tx.clone())));
                }
            });
            let _ = h.join();
            match rx.recv_timeout(std::time::Duration::from_secs(20)) {
                Ok(Ok(text)) => {
                    if let Some(w) = whitespace_defect(&text) {
                        ctx.report.violate("C16|at-exit|whitespace".into(), w, J::obj().set("at_exit", register_first));
                    }
                }
                Ok(Err(w)) => ctx.report.violate(
                    format!("C16|at-exit|{}", register_first),
                    format!("{} (destructor registered {} the thread's first render)", w, if register_first { "before" } else { "after" }),
                    J::obj().set("at_exit", register_first),
                ),
                Err(_) => ctx.report.inconclusive.push("the thread-exit render did not report back".into()),
            }
        }
    }
    // extreme sizes: rendered on a thread with a large stack (totality and whitespace; the rendering of
    // a term nested 300 deep is not kept in the injectivity monitor)
    {
        let mut idx = 0usize;
        for (ci, (label, t)) in extreme_cases().into_iter().enumerate() {
            idx += 1;
            if !ctx.mine(idx) {
                continue;
            }
            let nd = wrap_rotating(t, ci);
            ctx.report.eval();
            ctx.report.bump("family.extreme-sizes");
            ctx.report.nontrivial(&format!("extreme|{}|{}", label, ci % 3));
            let r = on_big_stack(move || {
                let item = Item::N(nd);
                let first = item.render();
                // ... and an ordinary value afterwards on the same thread
                let after = Item::N(ND::Term(TD::bin(Kind::Inh, TD::word("a"), TD::comp(Kind::SetExt, vec![TD::word("b")])))).render();
                (first, after)
            });
            let why = match r {
                None => Some("the thread rendering the case died".to_string()),
                Some((Err(p), _)) => Some(format!("rendering panicked: {}", p)),
                Some((Ok(text), after)) => whitespace_defect(&text).or(match after {
                    Err(p) => Some(format!("an ordinary render after it on the same thread panicked: {}", p)),
                    Ok(t) => whitespace_defect(&t),
                }),
            };
            if let Some(w) = why {
                ctx.report.violate(
                    format!("C16|extreme|{}", label),
                    format!("extreme case {} ({}): {}", label, ["term", "sentence", "task"][ci % 3], w.chars().take(300).collect::<String>()),
                    J::obj().set("extreme", label.as_str()).set("wrap", ci as u64),
                );
            }
        }
    }
    // depth 2: constructors over depth-1 compounds (sampled per shard)
    let mut rng = ctx.rng(0xC16);
    let names = common_safe_names();
    let g = Gen { names: &names, max_depth: 6, max_arity: 4, placeholders: true, set_bias: false };
    let n = ctx.share(4_000_000, 40_000_000);
    for i in 0..n {
        if ctx.out_of_time() {
            ctx.report.inconclusive.push(format!("random workload cut at {} of {}", i, n));
            break;
        }
        match i % 5 {
            0 => {
                // near-miss family: same components, sibling constructor / other index / other order
                let d__ = 2 + rng.below(3);
                let t = g.term_x(&mut rng, d__);
                mon.observe(ctx, &Item::N(ND::Term(t.clone())), "near-miss");
                // (a near miss that is only expressible through the constructors - an image index behind one of the
                // image's own bare placeholders - has, by construction, the spelling of its well-formed twin)
                if let Some(m) = super::c06::near_miss(&t, &mut rng).filter(td_wellformed) {
                    mon.observe(ctx, &Item::N(ND::Term(m)), "near-miss");
                }
            }
            1 => {
                // small alphabet, deeper: many structurally close values
                let k1 = rng.pick(&small).clone();
                let k2 = rng.pick(&small).clone();
                let k = ALL_KINDS[7 + rng.below(23)];
                let t = match k.shape() {
                    Shape::Unary => TD::comp(k, vec![k1]),
                    Shape::BinOrd | Shape::BinSym => TD::bin(k, k1, k2),
                    Shape::Image => {
                        if k1.k == Kind::Placeholder || k2.k == Kind::Placeholder {
                            continue;
                        }
                        TD::image(k, rng.below(3), vec![k1, k2])
                    }
                    _ => {
                        if rng.chance(1, 2) {
                            TD::comp(k, vec![k1, k2])
                        } else {
                            TD::comp(k, vec![k1])
                        }
                    }
                };
                mon.observe(ctx, &Item::N(ND::Term(t)), "universe2-sample");
            }
            2 => {
                let d__ = 2 + rng.below(4);
                let nd = g.narsese(&mut rng, d__);
                mon.observe(ctx, &Item::N(nd), "random");
            }
            3 => {
                let d__ = 2 + rng.below(4);
                let t = g.term_x(&mut rng, d__);
                order_check(ctx, &t, &mut rng);
                mon.observe(ctx, &Item::N(ND::Term(t)), "random");
            }
            _ => {
                // sentences / tasks that differ in one item only
                let mut s = g.task(&mut rng, 2);
                mon.observe(ctx, &Item::N(ND::Task(s.clone())), "item-variants");
                match rng.below(4) {
                    0 => {
                        s.sent.stamp = match s.sent.stamp {
                            StampD::Fixed(t) if rng.chance(1, 2) => StampD::Fixed(t.wrapping_add(1)),
                            _ => g.stamp(&mut rng),
                        }
                    }
                    1 => {
                        s.budget = (0..rng.below(4)).map(|_| g.float(&mut rng)).collect();
                    }
                    2 => {
                        if s.sent.punct.has_truth() {
                            s.sent.truth = (0..rng.below(3)).map(|_| g.float(&mut rng)).collect();
                        }
                    }
                    _ => {
                        s.sent.punct = *rng.pick(&ALL_PUNCT);
                        if !s.sent.punct.has_truth() {
                            s.sent.truth.clear();
                        }
                    }
                }
                mon.observe(ctx, &Item::N(ND::Task(s.clone())), "item-variants");
                mon.observe(ctx, &Item::N(ND::Sent(s.sent.clone())), "item-variants");
            }
        }
    }
    // many threads render values nobody has rendered before, at the same time (names with characters
    // outside [A-Za-z0-9_], fresh per thread and step; numbers likewise): what each thread saw goes
    // through the injectivity monitor, and every value must render to the same text again afterwards
    if ctx.shard < 4 {
        let rounds = if ctx.thorough { 8 } else { 1 };
        for round in 0..rounds {
            ctx.report.bump("family.fresh-values-on-many-threads");
            let nthreads = 2 * std::thread::available_parallelism().map(|n| n.get()).unwrap_or(4).clamp(4, 16);
            let go = std::sync::Arc::new(std::sync::atomic::AtomicBool::new(false));
            let shard = ctx.shard;
            let hs: Vec<_> = (0..nthreads)
                .filter_map(|ti| {
                    let go = go.clone();
                    std::thread::Builder::new()
                        .spawn(move || {
                            while !go.load(std::sync::atomic::Ordering::Acquire) {
                                std::thread::yield_now();
                            }
                            let mut seen: Vec<(Item, Result<String, String>)> = vec![];
                            let seps = ['-', '.', '+', 'é', '中', '\'', ':', '~'];
                            for i in 0..1500usize {
                                let sep = seps[(i + ti) % seps.len()];
                                let name = format!("n{}{}{}{}{}{}{}", shard, sep, round, sep, ti, sep, i);
                                let kind = NAMED_ATOM_KINDS[(i / 8 + ti) % NAMED_ATOM_KINDS.len()];
                                let atom = TD::atom(kind, &name);
                                let item = match i % 4 {
                                    0 | 1 => Item::N(ND::Term(atom)),
                                    2 => Item::N(ND::Term(TD::comp(Kind::SetExt, vec![atom, TD::word("A")]))),
                                    _ => Item::Truth(vec![((ti * 1500 + i) as f64 + 0.5) / 1.0e6, 0.25]),
                                };
                                let text = item.render();
                                seen.push((item, text));
                            }
                            seen
                        })
                        .ok()
                })
                .collect();
            go.store(true, std::sync::atomic::Ordering::Release);
            for h in hs {
                let Ok(seen) = h.join() else {
                    ctx.report.violate("C16|concurrent|thread-died".into(), "a thread rendering fresh values died".into(), J::obj().set("concurrent", true));
                    continue;
                };
                for (item, text) in seen {
                    // stability: the text a thread saw during the concurrent phase is the text of the value
                    // (every render builds the value anew, and the members of a set come out in the order of
                    // that set's own random hasher: the token multiset is what has to be the same)
                    let again = item.render();
                    if again.as_ref().map(|t| token_multiset(t)) != text.as_ref().map(|t| token_multiset(t)) {
                        ctx.report.violate(
                            "C16|concurrent|unstable".into(),
                            format!("{} rendered to {:?} while {} threads were rendering, and to {:?} afterwards", item.key(), text, nthreads, again),
                            J::obj().set("concurrent", true).set("a", item.to_json()),
                        );
                        break;
                    }
                    mon.observe(ctx, &item, "fresh-values-on-many-threads");
                }
            }
        }
    }
    ctx.report.note("distinct_texts_in_monitor", mon.seen.len());
    match mon.write_log(&format!("{}/shard-{}.c16", ctx.out_dir, ctx.shard)) {
        Ok(n) => ctx.report.note("texts_logged_for_cross_shard_merge", n),
        Err(e) => ctx.report.inconclusive.push(format!("the text log for the cross-shard injectivity merge could not be written: {}", e)),
    }
    ctx.report.note(
        "rule",
        "a case = one value rendered to Typst and fed to the injectivity monitor (text -> canonical key map, per shard); non-trivial = a non-atomic term / any sentence, task, truth, budget, stamp or punctuation; distinct by canonical key",
    );
}

pub fn replay(ctx: &mut Ctx, d: &J) -> Option<()> {
    if d.get("at_exit").is_some() {
        super::rerun_fixed(ctx);
        return Some(());
    }
    if let Some(label) = jstr(d, "extreme") {
        let nd = wrap_rotating(extreme_from_label(&label)?, d.get("wrap")?.as_i128()? as usize);
        let r = on_big_stack(move || Item::N(nd).render());
        match r {
            Some(Ok(t)) => {
                if let Some(w) = whitespace_defect(&t) {
                    ctx.report.violate(format!("C16|extreme|{}", label), w, d.clone());
                }
            }
            Some(Err(p)) => ctx.report.violate(format!("C16|extreme|{}", label), format!("rendering panicked: {}", p), d.clone()),
            None => ctx.report.violate(format!("C16|extreme|{}", label), "the thread died".into(), d.clone()),
        }
        return Some(());
    }
    let mut mon = Monitor::new();
    if d.get("a").is_some() {
        let a = Item::from_json(d.get("a")?)?;
        mon.observe(ctx, &a, "replay");
        if let Some(b) = d.get("b").and_then(Item::from_json) {
            if jstr(d, "why").as_deref() == Some("order") {
                if let (Ok(x), Ok(y)) = (a.render(), b.render()) {
                    if token_multiset(&x) != token_multiset(&y) {
                        ctx.report.violate("C16|order".into(), "token multisets differ".into(), d.clone());
                    }
                }
            } else {
                mon.observe(ctx, &b, "replay");
            }
        }
    } else {
        let a = Item::from_json(d)?;
        mon.observe(ctx, &a, "replay");
    }
    Some(())
}
