//! C04 — the enum parser is total: every input string yields Ok or Err.
//!
//! E: journaled call (entry point, format, input) -> Ok / Err(displayable) / Panic / process death / hang.
//! Hook monitor: at every successfully consumed item the pair (cursor, filled slots) strictly grows;
//! the number of consume steps is bounded by the input length; cursor overshoot at error time is recorded.

use super::common::*;
use crate::guard::{observe, panic_site, Obs};
use crate::json::J;
use crate::names::*;
use crate::rng::Rng;
use crate::strings::*;
use crate::Ctx;
use narsese::enum_narsese::{Budget, Narsese, Punctuation, Stamp, Truth};
use std::time::Instant;

pub const ENTRIES: [&str; 10] = ["narsese", "narsese-chars", "truth", "budget", "stamp", "punctuation", "truth-chars", "budget-chars", "stamp-chars", "punctuation-chars"];

/// run one entry point; returns ("ok"|"err", None) or (_, Some(panic))
pub fn call_entry(f: Fmt, entry: &str, s: &str) -> Result<&'static str, String> {
    let e = f.e();
    let r = observe(|| -> &'static str {
        macro_rules! go {
            ($r:expr) => {
                match $r {
                    Ok(_) => "ok",
                    Err(err) => {
                        // the error must be displayable
                        let text = err.to_string();
                        let _ = format!("{:?}", err);
                        if text.is_empty() {
                            "err-empty-message"
                        } else {
                            "err"
                        }
                    }
                }
            };
        }
        match entry {
            "narsese" => go!(e.parse::<Narsese>(s)),
            "narsese-chars" => go!(e.parse_chars::<Narsese>(s.chars().collect())),
            "truth" => go!(e.parse::<Truth>(s)),
            "budget" => go!(e.parse::<Budget>(s)),
            "stamp" => go!(e.parse::<Stamp>(s)),
            "punctuation" => go!(e.parse::<Punctuation>(s)),
            "truth-chars" => go!(e.parse_chars::<Truth>(s.chars().collect())),
            "budget-chars" => go!(e.parse_chars::<Budget>(s.chars().collect())),
            "stamp-chars" => go!(e.parse_chars::<Stamp>(s.chars().collect())),
            "punctuation-chars" => go!(e.parse_chars::<Punctuation>(s.chars().collect())),
            _ => "err",
        }
    });
    match r {
        Obs::Ret(x) => Ok(x),
        Obs::Panic(p) => Err(p),
    }
}

pub fn call_multi(f: Fmt, batch: &[String]) -> Result<usize, String> {
    let e = f.e();
    let r = observe(|| {
        let mut joined = String::new();
        let rs = parse_multi_any(e, batch, &mut joined);
        let mut oks = 0;
        for r in &rs {
            match r {
                Ok(_) => oks += 1,
                Err(err) => {
                    let _ = err.to_string();
                }
            }
        }
        if rs.len() != batch.len() {
            usize::MAX
        } else {
            oks
        }
    });
    match r {
        Obs::Ret(x) => Ok(x),
        Obs::Panic(p) => Err(p),
    }
}

/// hook monitor over the events of one whole-value parse; returns a defect description
#[cfg(feature = "hooks")]
pub fn hook_check(ctx: &mut Ctx, n_chars: usize) -> Option<String> {
    use narsese::verif_hooks::{drain, Event};
    let (events, dropped) = drain();
    if dropped > 0 {
        return Some(format!("more than 2^20 parser events for an input of {} chars", n_chars));
    }
    let mut begin: Option<(usize, u8)> = None;
    let mut steps = 0usize;
    let mut defect = None;
    for ev in &events {
        match ev {
            Event::EnumParseStart { slots } => {
                ctx.report.bump("hook.parse_start");
                if *slots != 0 {
                    defect = Some(format!("a whole-value parse started with filled slots {:05b}", slots));
                }
            }
            Event::EnumConsumeBegin { head, slots, .. } => {
                begin = Some((*head, *slots));
                steps += 1;
            }
            Event::EnumConsumeEnd { head, slots, len_env } => {
                if let Some((h0, s0)) = begin.take() {
                    let grew = *head > h0 || slots.count_ones() > s0.count_ones();
                    if !grew {
                        defect = Some(format!("an item was consumed without progress: cursor {} -> {}, slots {:05b} -> {:05b}", h0, head, s0, slots));
                    }
                    if *head < h0 {
                        defect = Some(format!("the cursor moved backwards over a successful consume: {} -> {}", h0, head));
                    }
                }
                let over = head.saturating_sub(*len_env);
                ctx.report.hist_max("max.hook.cursor_overshoot_after_consume", over as u64);
            }
            Event::EnumError { index, len_env } => {
                let over = index.saturating_sub(*len_env);
                ctx.report.hist_max("max.hook.cursor_overshoot_at_error", over as u64);
                ctx.report.bump(&format!("hook.overshoot_at_error.{}", if over > 8 { ">8".to_string() } else { over.to_string() }));
            }
            _ => {}
        }
    }
    ctx.report.bump_by("hook.events", events.len() as u64);
    ctx.report.hist_max("max.hook.consume_steps_per_parse", steps as u64);
    if steps > n_chars + 8 {
        defect = Some(format!("{} consume steps for an input of {} chars", steps, n_chars));
    }
    defect
}

fn shrink_string(s: &str, fails: &mut dyn FnMut(&str) -> bool) -> String {
    // ddmin-style: remove chunks of decreasing size while the failure persists
    let mut cur: Vec<char> = s.chars().collect();
    let mut chunk = (cur.len() / 2).max(1);
    let mut budget = 600;
    while chunk >= 1 && budget > 0 {
        let mut i = 0;
        let mut progressed = false;
        while i < cur.len() && budget > 0 {
            let j = (i + chunk).min(cur.len());
            let cand: String = cur[..i].iter().chain(cur[j..].iter()).collect();
            budget -= 1;
            if fails(&cand) {
                cur = cand.chars().collect();
                progressed = true;
            } else {
                i += chunk;
            }
        }
        if !progressed {
            if chunk == 1 {
                break;
            }
            chunk /= 2;
        }
    }
    cur.into_iter().collect()
}

pub fn report_panic(ctx: &mut Ctx, prop: &str, f: Fmt, entry: &str, s: &str, p: &str) {
    let site = panic_site(p);
    let small = shrink_string(s, &mut |c| matches!(call_entry(f, entry, c), Err(pp) if panic_site(&pp) == site));
    ctx.report.violate(
        format!("{}|panic|{}|{}|{}", prop, f.name(), entry.trim_end_matches("-chars"), site),
        format!("[{}] {} parser entry `{}` panicked on {:?}: {}", f.name(), "enum", entry, small, p),
        J::obj().set("kind", "panic").set("format", f.name()).set("entry", entry).set("input", small.clone()).set("original", s).set("panic", p),
    );
}

/// all C04 observations on one string in one format
pub fn probe(ctx: &mut Ctx, f: Fmt, s: &str, family: &str) {
    // every 400th call something fails on this thread first (every 8th of those: a caught panic inside
    // the library, from a user-built format's predicate or a user iterator); the call that follows is checked
    if ctx.report.evaluations % 400 == 0 {
        something_fails_first((ctx.report.evaluations / 400) as usize);
    }
    let n_chars = s.chars().count();
    ctx.journal.about_to(&format!("C04|{}", f.name()), s);
    ctx.report.eval();
    ctx.report.bump(&format!("family.{}", family));
    ctx.report.bump(&format!("format.{}", f.name()));
    if family != "wellformed" {
        ctx.report.nontrivial(&format!("{}|{}", f.name(), s));
    }
    for (i, entry) in ENTRIES.iter().enumerate() {
        // the *-chars variants are sampled
        if i >= 6 && n_chars % 4 != i - 6 {
            continue;
        }
        #[cfg(feature = "hooks")]
        let hooked = *entry == "narsese" || *entry == "narsese-chars";
        #[cfg(feature = "hooks")]
        if hooked {
            narsese::verif_hooks::enable(true);
        }
        let t0 = Instant::now();
        let r = call_entry(f, entry, s);
        let us = t0.elapsed().as_micros() as u64;
        #[cfg(feature = "hooks")]
        if hooked {
            narsese::verif_hooks::enable(false);
            if let Some(d) = hook_check(ctx, n_chars) {
                ctx.report.violate(
                    format!("C04|hook|{}|{}", f.name(), d.split(':').next().unwrap_or("")),
                    format!("[{}] {} on input {:?}", f.name(), d, s),
                    J::obj().set("kind", "hook").set("format", f.name()).set("entry", *entry).set("input", s).set("why", d.clone()),
                );
            }
        }
        ctx.report.hist_max("max.call_us", us);
        if us > 5_000_000 {
            ctx.report.inconclusive.push(format!("a call of `{}` [{}] took {} ms on {:?}", entry, f.name(), us / 1000, s));
        }
        match r {
            Ok(o) => {
                ctx.report.bump(&format!("outcome.{}.{}", entry, o));
                if o == "err-empty-message" {
                    ctx.report.violate(
                        format!("C04|empty-error|{}|{}", f.name(), entry),
                        format!("[{}] `{}` returned an error with an empty message on {:?}", f.name(), entry, s),
                        J::obj().set("kind", "empty-error").set("format", f.name()).set("entry", *entry).set("input", s),
                    );
                }
            }
            Err(p) => report_panic(ctx, "C04", f, entry, s, &p),
        }
    }
    ctx.journal.done();
}

pub fn probe_multi(ctx: &mut Ctx, f: Fmt, batch: &[String]) {
    ctx.journal.about_to(&format!("C04-multi|{}", f.name()), &batch.join("\u{2}"));
    ctx.report.eval();
    ctx.report.bump("family.parse_multi-batches");
    match call_multi(f, batch) {
        Ok(usize::MAX) => ctx.report.violate(
            format!("C04|multi-length|{}", f.name()),
            format!("[{}] parse_multi returned a different number of results than inputs", f.name()),
            J::obj().set("kind", "multi").set("format", f.name()).set("inputs", J::Arr(batch.iter().map(J::from).collect())),
        ),
        Ok(_) => ctx.report.bump("outcome.parse_multi.returned"),
        Err(p) => {
            // find a minimal sub-batch
            let site = panic_site(&p);
            let mut cur: Vec<String> = batch.to_vec();
            let mut i = 0;
            while i < cur.len() && cur.len() > 1 {
                let mut c = cur.clone();
                c.remove(i);
                if matches!(call_multi(f, &c), Err(pp) if panic_site(&pp) == site) {
                    cur = c;
                } else {
                    i += 1;
                }
            }
            ctx.report.violate(
                format!("C04|panic|{}|parse_multi|{}", f.name(), site),
                format!("[{}] parse_multi panicked on {:?}: {}", f.name(), cur, p),
                J::obj().set("kind", "multi").set("format", f.name()).set("inputs", J::Arr(cur.iter().map(J::from).collect())).set("panic", p),
            );
        }
    }
    ctx.journal.done();
}

/// iterate over all token sequences of length 1..=max_len of the reduced alphabet
pub fn for_each_token_sequence(alpha: &[String], max_len: usize, mut f: impl FnMut(usize, &str)) {
    let n = alpha.len();
    let mut idx = 0usize;
    let mut s = String::new();
    for len in 1..=max_len {
        let total = n.pow(len as u32);
        for code in 0..total {
            s.clear();
            let mut c = code;
            for _ in 0..len {
                s.push_str(&alpha[c % n]);
                c /= n;
            }
            f(idx, &s);
            idx += 1;
        }
    }
}

/// the shared hostile workload: calls `sink(ctx, format, string, family)` for every generated string
pub fn hostile_workload(ctx: &mut Ctx, tag: u64, quick_n: u64, thorough_n: u64, sink: &mut dyn FnMut(&mut Ctx, Fmt, &str, &'static str)) {
    let mut rng = ctx.rng(tag);
    let gens: Vec<StrGen> = ALL_FMT.iter().map(|f| StrGen::new(*f)).collect();
    let mut idx = 0usize;
    // (1) deep nesting, every format, also fed to the other formats' parsers
    for g in &gens {
        for s in g.deep_nesting() {
            for f in ALL_FMT {
                idx += 1;
                if ctx.mine(idx) {
                    sink(ctx, f, &s, "deep-nesting");
                }
            }
        }
    }
    // (2) bounded-exhaustive token sequences over the reduced alphabet
    let max_len = if ctx.thorough { 5 } else { 4 };
    for g in &gens {
        let alpha = g.reduced_alphabet();
        let f = g.fmt;
        let shard = ctx.shard;
        let nshards = ctx.nshards;
        let mut count = 0u64;
        for_each_token_sequence(&alpha, max_len, |i, s| {
            if i % nshards == shard {
                sink(ctx, f, s, "exhaustive-token-sequences");
                count += 1;
            }
        });
        ctx.report.bump_by(&format!("exhaustive-token-sequences.{}.alphabet", f.name()), 0);
        ctx.report.note(&format!("exhaustive_tokens_{}", f.name()), J::from(format!("all sequences of length <= {} over {} tokens", max_len, alpha.len())));
        let _ = count;
    }
    // (3) well-formed strings with all truncations and systematic token edits; random mutation chains; soup; unicode
    let n = ctx.share(quick_n, thorough_n);
    let mut produced = 0u64;
    while produced < n {
        if ctx.out_of_time() {
            ctx.report.inconclusive.push(format!("hostile string workload cut at {} of {} by the time budget", produced, n));
            break;
        }
        let g = &gens[rng.below(3)];
        let f = g.fmt;
        let depth = 1 + rng.below(5);
        let base = g.wellformed(&mut rng, depth);
        sink(ctx, f, &base, "wellformed");
        produced += 1;
        match rng.below(8) {
            0 => {
                for t in g.truncations(&base) {
                    sink(ctx, f, &t, "truncation");
                    produced += 1;
                }
            }
            1 => {
                for t in g.systematic(&base) {
                    sink(ctx, f, &t, "systematic-token-edit");
                    produced += 1;
                }
            }
            2 | 3 | 4 => {
                let mut s = base.clone();
                for _ in 0..rng.range(1, 5) {
                    s = g.mutate(&s, &mut rng);
                    sink(ctx, f, &s, "mutation-chain");
                    produced += 1;
                }
                // cross-format confusion
                let other = ALL_FMT[rng.below(3)];
                sink(ctx, other, &s, "cross-format");
                produced += 1;
            }
            5 => {
                for _ in 0..8 {
                    let s = g.soup(&mut rng);
                    sink(ctx, f, &s, "token-soup");
                    produced += 1;
                }
            }
            6 => {
                for s in g.long_names(&mut rng) {
                    sink(ctx, f, &s, "long-atom-names");
                    produced += 1;
                }
            }
            _ => {
                for _ in 0..4 {
                    let mut s = random_unicode(&mut rng);
                    sink(ctx, f, &s, "random-unicode");
                    // unicode spliced into a well-formed string
                    let cs: Vec<char> = base.chars().collect();
                    let cut = rng.below(cs.len() + 1);
                    s = cs[..cut].iter().collect::<String>() + &s + &cs[cut..].iter().collect::<String>();
                    let s = clip(s);
                    sink(ctx, f, &s, "unicode-splice");
                    produced += 2;
                }
            }
        }
    }
}

pub fn run(ctx: &mut Ctx) {
    // many threads at once (two per core) inside the entry points, on strings that hold alone
    if ctx.shard < 4 {
        let mut rng = ctx.rng(0x7C0);
        let mut cases: Vec<(Fmt, String)> = vec![];
        for f in ALL_FMT {
            let g = StrGen::new(f);
            for i in 0..30usize {
                let base = g.wellformed(&mut rng, 1 + i % 3);
                cases.push((f, if i % 3 == 2 { g.mutate(&base, &mut rng) } else { base }));
            }
            cases.extend(["", "(", "{A,", "<A --> B>. %1;0.9%", "$0.5$ A. :|:"].iter().map(|s| (f, s.to_string())));
            // (long inputs of many different lengths, cheap to parse: a shared pool of input buffers that is
            // only used above some size has to hand out, take back and drop buffers all the time)
            for i in 0..24usize {
                let base = g.wellformed(&mut rng, 2);
                cases.push((f, format!("{}{}{}", " ".repeat(40 + 37 * i), base, " ".repeat(17 * (i % 5)))));
            }
        }
        let rounds = if ctx.thorough { 60 } else { 6 };
        concurrent_family(ctx, "C04", "all enum parser entry points", cases, rounds, |c| {
            for entry in ENTRIES {
                if let Err(p) = call_entry(c.0, entry, &c.1) {
                    return Some(format!("{} on {:?} panicked: {}", entry, c.1, p));
                }
            }
            call_multi(c.0, &[c.1.clone(), c.1.clone()]).err().map(|p| format!("parse_multi on {:?} twice panicked: {}", c.1, p))
        });
    }

    let mut recent: Vec<String> = vec![];
    let mut counter = 0u64;
    let mut sink = |ctx: &mut Ctx, f: Fmt, s: &str, family: &'static str| {
        probe(ctx, f, s, family);
        counter += 1;
        recent.push(s.to_string());
        if recent.len() >= 6 {
            if counter % 3 == 0 {
                probe_multi(ctx, f, &recent);
            }
            recent.clear();
        }
    };
    hostile_workload(ctx, 0xC04, 4_000_000, 40_000_000, &mut sink);
    // fixed regression-style inputs named by the property text (stability cases of every format)
    if ctx.shard == 0 {
        for f in ALL_FMT {
            for s in ["", " ", "  ", "\u{3000}"] {
                probe(ctx, f, s, "empty");
            }
        }
    }
    ctx.report.note(
        "rule",
        "a case = one bounded input string in one format through the whole-value, character-vector, truth, budget, stamp and punctuation entry points (batches of 6 through parse_multi); non-trivial = not a plain formatter output (truncated, mutated, enumerated token sequence, soup, unicode, nesting); distinct = distinct (format, string)",
    );
    let _ = Rng::new(0);
}

pub fn replay(ctx: &mut Ctx, d: &J) -> Option<()> {
    if d.get("journal").is_some() {
        // crash journal entry: label "C04|fmt" or "C04-multi|fmt"
        let label = jstr(d, "label")?;
        let input = jstr(d, "input")?;
        let mut parts = label.split('|');
        let kind = parts.next()?;
        let f = Fmt::from_name(parts.next()?)?;
        if kind == "C04-multi" {
            let batch: Vec<String> = input.split('\u{2}').map(|s| s.to_string()).collect();
            probe_multi(ctx, f, &batch);
        } else {
            probe(ctx, f, &input, "replay");
        }
        return Some(());
    }
    let f = fmt_of(d)?;
    match jstr(d, "kind")?.as_str() {
        "multi" => {
            let batch: Vec<String> = d.get("inputs")?.as_arr()?.iter().filter_map(|x| x.as_str().map(|s| s.to_string())).collect();
            probe_multi(ctx, f, &batch);
        }
        _ => {
            let input = jstr(d, "input")?;
            probe(ctx, f, &input, "replay");
            if let Some(orig) = jstr(d, "original") {
                probe(ctx, f, &orig, "replay");
            }
        }
    }
    Some(())
}
