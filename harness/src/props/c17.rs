//! C17 — term mutators change exactly what they say, or fail and change nothing.

use super::common::*;
use crate::desc::*;
use crate::guard::{observe, Obs};
use crate::json::J;
use crate::names::*;
use crate::rng::Rng;
use crate::Ctx;

/// reference model of set_atom_name on a description: Some(new desc) on success, None on Err
fn model_set_name(t: &TD, n: &str) -> Option<TD> {
    match t.k.shape() {
        Shape::AtomNamed => {
            let mut c = t.clone();
            c.name = n.to_string();
            Some(c)
        }
        Shape::AtomPlaceholder => Some(t.clone()),
        Shape::AtomInterval => {
            // ^\+?[0-9]+$ with value <= usize::MAX
            let digits = n.strip_prefix('+').unwrap_or(n);
            if digits.is_empty() || !digits.bytes().all(|b| b.is_ascii_digit()) {
                return None;
            }
            let mut v: u128 = 0;
            for b in digits.bytes() {
                v = v.checked_mul(10)?.checked_add((b - b'0') as u128)?;
                if v > usize::MAX as u128 {
                    return None;
                }
            }
            let mut c = t.clone();
            c.num = v as usize;
            Some(c)
        }
        _ => None,
    }
}

/// reference model of push_components
fn model_push(t: &TD, cs: &[TD]) -> Option<TD> {
    match t.k.shape() {
        Shape::VecN | Shape::Image | Shape::SetN => {
            let mut c = t.clone();
            c.kids.extend(cs.iter().cloned());
            Some(c)
        }
        _ => None,
    }
}

/// structure-exact rendering of a real term (order of ordered containers, set members sorted),
/// including the image index: canon_real already is exactly that.
fn name_failure(t: &TD, n: &str) -> Option<String> {
    let mut real = t.build();
    let before = canon_real(&real);
    let r = observe(|| real.set_atom_name(n).map_err(|e| e.to_string()));
    let r = match r {
        Obs::Ret(r) => r,
        Obs::Panic(p) => return Some(format!("set_atom_name panicked: {}", p)),
    };
    let after = canon_real(&real);
    match (model_set_name(t, n), r) {
        (Some(want), Ok(())) => {
            if after != want.canon() {
                return Some(format!("set_atom_name({:?}) succeeded but the term is {} (expected {})", n, after, want.canon()));
            }
            // accessor reports back
            let got = real.get_atom_name();
            match want.k.shape() {
                // the five named kinds report the new name verbatim
                Shape::AtomNamed => {
                    if got.as_deref() != Some(&want.name[..]) {
                        return Some(format!("get_atom_name after set_atom_name({:?}) = {:?}, expected {:?}", n, got, want.name));
                    }
                }
                // an interval reports its value (any decimal spelling of it)
                Shape::AtomInterval => {
                    let v = got.as_deref().and_then(|g| g.strip_prefix('+').unwrap_or(g).parse::<usize>().ok());
                    if v != Some(want.num) {
                        return Some(format!("get_atom_name after set_atom_name({:?}) = {:?}, expected the value {}", n, got, want.num));
                    }
                }
                // the placeholder has no name; what the accessor shows for it is not specified
                _ => {
                    if got.is_none() {
                        return Some("get_atom_name is None for an atom".to_string());
                    }
                }
            }
            None
        }
        (None, Err(_)) => {
            if after != before {
                Some(format!("set_atom_name({:?}) failed but changed the term from {} to {}", n, before, after))
            } else {
                None
            }
        }
        (Some(_), Err(e)) => Some(format!("set_atom_name({:?}) failed ({}) where the model succeeds", n, e)),
        (None, Ok(())) => Some(format!("set_atom_name({:?}) succeeded where the model fails; term is now {}", n, after)),
    }
}

fn push_failure(t: &TD, cs: &[TD]) -> Option<String> {
    push_failure_from(t, cs, false)
}

/// the same with the term built on another thread and handed over (a term is `Send`; whatever its sets
/// remember of the thread that filled them must not matter to a mutator running here)
fn push_failure_across_threads(t: &TD, cs: &[TD]) -> Option<String> {
    push_failure_from(t, cs, true)
}

fn push_failure_from(t: &TD, cs: &[TD], elsewhere: bool) -> Option<String> {
    let mut real = if elsewhere {
        let t2 = t.clone();
        match on_fresh_thread(None, move || t2.build()) {
            Some(r) => r,
            None => return Some("building the term on another thread failed".into()),
        }
    } else {
        t.build()
    };
    let before = canon_real(&real);
    let built: Vec<_> = cs.iter().map(|c| c.build()).collect();
    // the argument is `impl IntoIterator`: a Vec, a filtered iterator (size_hint lower bound 0),
    // an exact prefix chained with a generated tail
    let kind = (cs.len() + t.kids.len()) % 3;
    let r = match observe(|| match kind {
        0 => real.push_components(built).map_err(|e| e.to_string()),
        1 => real.push_components(built.into_iter().filter(|_| true)).map_err(|e| e.to_string()),
        _ => {
            let mut it = built.into_iter();
            let first: Vec<_> = it.by_ref().take(1).collect();
            real.push_components(first.into_iter().chain(std::iter::from_fn(move || it.next()))).map_err(|e| e.to_string())
        }
    }) {
        Obs::Ret(r) => r,
        Obs::Panic(p) => return Some(format!("push_components panicked: {}", p)),
    };
    let after = canon_real(&real);
    match (model_push(t, cs), r) {
        (Some(want), Ok(())) => {
            if after != want.canon() {
                Some(format!("push_components succeeded but the term is {} (expected {})", after, want.canon()))
            } else if want.k.shape() == Shape::SetN && {
                // an unordered compound holds each member once: the number of components the term reports
                // is the number of distinct members of the model (the canonical form above cannot see a
                // member that is stored twice)
                let mut ks: Vec<String> = want.kids.iter().map(|k| k.canon()).collect();
                ks.sort();
                ks.dedup();
                use narsese::api::GetTerm as _;
                real.get_components().len() != ks.len()
            } {
                Some(format!("push_components succeeded, the term is {} but it now reports {} components{}", after, real.get_components().len(), if elsewhere { " (the term was built on another thread)" } else { "" }))
            } else {
                None
            }
        }
        (None, Err(_)) => {
            if after != before {
                Some(format!("push_components failed but changed the term from {} to {}", before, after))
            } else {
                None
            }
        }
        (Some(_), Err(e)) => Some(format!("push_components failed ({}) where the model succeeds", e)),
        (None, Ok(())) => Some(format!("push_components succeeded on a fixed-arity term; it is now {}", after)),
    }
}

pub fn name_strings() -> Vec<String> {
    let mut v: Vec<String> = [
        "", "7", "+7", "-0", "-7", " 7", "7 ", "٧", "0007", "+0007", "++7", "+", "+-7", "7+", "0", "+0", "00", "1_000", "1e3", "0x10",
        "７", "18446744073709551615", "18446744073709551616", "+18446744073709551615", "99999999999999999999999999", "abc", "a b", "-->",
        "$x", "_", "名", "😀", "\u{0}", "\n", "4294967295", "4294967296", "9223372036854775807", "9223372036854775808",
        "000000000000000000000000000000000018446744073709551615",
    ]
    .iter()
    .map(|s| s.to_string())
    .collect();
    for f in ALL_FMT {
        for k in keywords(f.e()).into_iter().take(12) {
            v.push(k.to_string());
        }
        // names that start with / consist of an atom prefix of some format
        for p in atom_prefixes(f.e()) {
            v.push(p.to_string());
            v.push(format!("{}left", p));
            v.push(format!("{}{}left", p, p));
            v.push(format!("left{}", p));
        }
    }
    v.sort();
    v.dedup();
    v
}

fn one_of_each(names: &[String], rng: &mut Rng) -> Vec<TD> {
    let a = || TD::word("A");
    let b = || TD::word("B");
    let mut out = vec![];
    for k in ALL_KINDS {
        let t = match k.shape() {
            Shape::AtomNamed => TD::atom(k, &rng.pick(names)[..]),
            Shape::AtomPlaceholder => TD::placeholder(),
            Shape::AtomInterval => TD::interval(*rng.pick(&[0usize, 1, 42, usize::MAX])),
            Shape::Unary => TD::comp(k, vec![a()]),
            Shape::BinOrd | Shape::BinSym => TD::bin(k, a(), b()),
            Shape::VecN | Shape::SetN => {
                let n = rng.range(1, 3);
                TD::comp(k, (0..n).map(|i| if i % 2 == 0 { a() } else { b() }).collect())
            }
            Shape::Image => {
                let n = rng.range(1, 3);
                let idx = rng.below(n + 1);
                TD::image(k, idx, (0..n).map(|i| if i % 2 == 0 { a() } else { b() }).collect())
            }
        };
        out.push(t);
    }
    out
}

pub fn run(ctx: &mut Ctx) {
    let names = common_safe_names();
    let strings = name_strings();
    let mut rng = ctx.rng(0xC17);
    let g = Gen { names: &names, max_depth: 4, max_arity: 4, placeholders: true, set_bias: false };
    let mut idx = 0usize;
    // many threads at once (two per core) in the mutators, on cases that hold alone
    if ctx.shard < 4 {
        let mut crng = ctx.rng(0x7C17);
        let mut cases: Vec<(TD, String, Vec<TD>)> = vec![];
        for i in 0..120usize {
            let t = g.term(&mut crng, 1 + i % 3, false);
            let n = strings[(i * 13) % strings.len()].clone();
            let cs: Vec<TD> = (0..i % 4).map(|_| g.term(&mut crng, 1, false)).collect();
            cases.push((t, n, cs));
        }
        let rounds = if ctx.thorough { 60 } else { 6 };
        concurrent_family(ctx, "C17", "set_atom_name / push_components", cases, rounds, |c| name_failure(&c.0, &c.1).or_else(|| push_failure(&c.0, &c.2)));
    }
    // terms built on another thread, then given members here - among them members they already hold
    // (nested unordered compounds and symmetric statements: their hash is the one part of a term that
    // could remember where it was computed)
    {
        let mut xrng = ctx.rng(0x17AC);
        let gx = Gen { names: &names, max_depth: 3, max_arity: 4, placeholders: false, set_bias: true };
        let n = ctx.share(1200, 12_000);
        for i in 0..n {
            let members: Vec<TD> = (0..2 + i % 3)
                .map(|j| match (i + j) % 3 {
                    0 => TD::comp(Kind::SetExt, vec![gx.term(&mut xrng, 1, false), gx.term(&mut xrng, 1, false)]),
                    1 => TD::bin(Kind::Sim, gx.term(&mut xrng, 1, false), gx.term(&mut xrng, 1, false)),
                    _ => gx.term(&mut xrng, 2, false),
                })
                .collect();
            let k = [Kind::SetExt, Kind::SetInt, Kind::IntExt, Kind::IntInt, Kind::Conj, Kind::Disj, Kind::ConjPar][i as usize % 7];
            let t = TD::comp(k, members.clone());
            let mut cs: Vec<TD> = members.iter().take(1 + i as usize % 3).cloned().collect();
            if i % 2 == 0 {
                cs.push(gx.term(&mut xrng, 1, false));
            }
            ctx.report.eval();
            ctx.report.bump("family.built-on-another-thread");
            ctx.report.nontrivial(&format!("x|{}|{}", t.canon(), cs.len()));
            if let Some(w) = push_failure_across_threads(&t, &cs) {
                ctx.report.violate(format!("C17|push-across-threads|{}", k.tag()), w.clone(), J::obj().set("term", t.to_json()).set("op", "push_components").set("components", J::Arr(cs.iter().map(|c| c.to_json()).collect())).set("across_threads", true).set("why", w));
                break;
            }
        }
    }

    // (0) fixed-arity terms whose components are (still) bare placeholders, and lists of exactly their
    // arity: appending must fail and change nothing, whatever the components are
    {
        let fixed: Vec<Kind> = [Kind::Neg, Kind::DiffExt, Kind::DiffInt].iter().chain(BINORD_STATEMENT_KINDS.iter()).chain(BINSYM_KINDS.iter()).copied().collect();
        for k in fixed {
            let arity = if k == Kind::Neg { 1 } else { 2 };
            for filler in 0..3usize {
                let kid = |i: usize| match filler {
                    0 => TD::placeholder(),
                    1 => if i == 0 { TD::placeholder() } else { TD::word("A") },
                    _ => TD::word(["A", "B"][i % 2]),
                };
                let t = if arity == 1 { TD::comp(k, vec![kid(0)]) } else { TD::bin(k, kid(0), kid(1)) };
                for len in 0..=3usize {
                    idx += 1;
                    if !ctx.mine(idx) {
                        continue;
                    }
                    let cs: Vec<TD> = (0..len).map(|j| if (j + filler) % 2 == 0 { TD::word("new") } else { TD::placeholder() }).collect();
                    ctx.report.eval();
                    ctx.report.bump("push_components.fixed-arity-with-placeholders");
                    ctx.report.nontrivial(&format!("push|{}|{}", t.canon(), len));
                    if let Some(w) = push_failure(&t, &cs) {
                        ctx.report.violate(
                            format!("C17|push|{}|fixed-arity", t.k.tag()),
                            format!("{} (term {}, pushing {:?})", w, t.canon(), cs.iter().map(|c| c.canon()).collect::<Vec<_>>()),
                            J::obj().set("op", "push_components").set("term", t.to_json()).set("components", J::Arr(cs.iter().map(|c| c.to_json()).collect())).set("why", w.clone()),
                        );
                    }
                }
            }
        }
    }
    // (1) every constructor x every fixed string, and x component lists of length 0..=4
    let rounds = if ctx.thorough { 40 } else { 4 };
    for round in 0..rounds {
        let mut r2 = crate::rng::Rng::new(ctx.seed ^ (round as u64) << 8 ^ 0x17);
        for t in one_of_each(&names, &mut r2) {
            for s in &strings {
                idx += 1;
                if !ctx.mine(idx) {
                    continue;
                }
                ctx.report.eval();
                ctx.report.bump(&format!("set_atom_name.{}", t.k.tag()));
                ctx.report.nontrivial(&format!("name|{}|{:?}", t.canon(), s));
                if let Some(w) = name_failure(&t, s) {
                    ctx.report.violate(
                        format!("C17|name|{}|{:?}", t.k.tag(), s),
                        format!("{} (term {})", w, t.canon()),
                        J::obj().set("op", "set_atom_name").set("term", t.to_json()).set("name", s).set("why", w.clone()),
                    );
                }
            }
            for len in 0..=4usize {
                idx += 1;
                if !ctx.mine(idx) {
                    continue;
                }
                // include duplicates of existing members and a bare placeholder
                let mut cs: Vec<TD> = vec![];
                for j in 0..len {
                    cs.push(match (j + round) % 4 {
                        0 => t.kids.first().cloned().unwrap_or_else(|| TD::word("A")),
                        1 => TD::word("new"),
                        2 => TD::placeholder(),
                        _ => g.term(&mut rng, 2, false),
                    });
                }
                ctx.report.eval();
                ctx.report.bump(&format!("push_components.{}", t.k.tag()));
                ctx.report.bump(&format!("push_len.{}", len));
                ctx.report.nontrivial(&format!("push|{}|{:?}", t.canon(), cs.iter().map(|c| c.canon()).collect::<Vec<_>>()));
                ctx.report.sample(|| J::obj().set("op", "push_components").set("term", t.canon()).set("components", J::Arr(cs.iter().map(|c| J::from(c.canon())).collect())));
                if let Some(w) = push_failure(&t, &cs) {
                    ctx.report.violate(
                        format!("C17|push|{}|{}", t.k.tag(), w.split(" but ").next().unwrap_or("").split(" where ").next().unwrap_or("")),
                        format!("{} (term {}, pushing {:?})", w, t.canon(), cs.iter().map(|c| c.canon()).collect::<Vec<_>>()),
                        J::obj()
                            .set("op", "push_components")
                            .set("term", t.to_json())
                            .set("components", J::Arr(cs.iter().map(|c| c.to_json()).collect()))
                            .set("why", w.clone()),
                    );
                }
            }
        }
    }
    // (2) random terms x random strings / lists
    let n = ctx.share(4_000_000, 40_000_000);
    for i in 0..n {
        if ctx.out_of_time() {
            ctx.report.inconclusive.push(format!("random workload cut at {} of {}", i, n));
            break;
        }
        let d__ = 1 + rng.below(3);
        let t = g.term_x(&mut rng, d__);
        ctx.report.eval();
        if i % 2 == 0 {
            let s = match rng.below(4) {
                0 => rng.pick(&strings).clone(),
                1 => format!("{}", rng.next_u64()),
                2 => format!("+{}", rng.next_u64() as u128 * (1 + rng.below(3) as u128)),
                _ => {
                    let len = rng.below(6);
                    (0..len).map(|_| *rng.pick(&['0', '7', '+', '-', ' ', 'a', '٣', '9', '_'])).collect()
                }
            };
            ctx.report.bump(&format!("set_atom_name.{}", t.k.tag()));
            ctx.report.nontrivial(&format!("name|{}|{:?}", t.canon(), s));
            if let Some(w) = name_failure(&t, &s) {
                ctx.report.violate(
                    format!("C17|name|{}|{:?}", t.k.tag(), s),
                    format!("{} (term {})", w, t.canon()),
                    J::obj().set("op", "set_atom_name").set("term", t.to_json()).set("name", s).set("why", w.clone()),
                );
            }
        } else {
            let len = rng.below(5);
            let cs: Vec<TD> = (0..len).map(|_| if rng.chance(1, 4) && !t.kids.is_empty() { rng.pick(&t.kids).clone() } else { g.term(&mut rng, 2, false) }).collect();
            ctx.report.bump(&format!("push_components.{}", t.k.tag()));
            ctx.report.nontrivial(&format!("push|{}|{:?}", t.canon(), cs.iter().map(|c| c.canon()).collect::<Vec<_>>()));
            if let Some(w) = push_failure(&t, &cs) {
                ctx.report.violate(
                    format!("C17|push|{}|{}", t.k.tag(), w.split(" but ").next().unwrap_or("").split(" where ").next().unwrap_or("")),
                    format!("{} (term {})", w, t.canon()),
                    J::obj()
                        .set("op", "push_components")
                        .set("term", t.to_json())
                        .set("components", J::Arr(cs.iter().map(|c| c.to_json()).collect()))
                        .set("why", w.clone()),
                );
            }
        }
    }
    ctx.report.note(
        "rule",
        "a case = (term, new name) through set_atom_name/get_atom_name or (term, component list) through push_components, compared with the reference model incl. the post-state; every case is non-trivial; distinct = distinct (term canon, argument)",
    );
}

pub fn replay(ctx: &mut Ctx, d: &J) -> Option<()> {
    let t = TD::from_json(d.get("term")?)?;
    match jstr(d, "op")?.as_str() {
        "set_atom_name" => {
            let n = jstr(d, "name")?;
            if let Some(w) = name_failure(&t, &n) {
                ctx.report.violate(format!("C17|name|{}|{:?}", t.k.tag(), n), w, d.clone());
            }
        }
        _ => {
            let cs: Vec<TD> = d.get("components")?.as_arr()?.iter().map(TD::from_json).collect::<Option<Vec<_>>>()?;
            if let Some(w) = push_failure_from(&t, &cs, d.get("across_threads").is_some()) {
                ctx.report.violate(format!("C17|push|{}", t.k.tag()), w, d.clone());
            }
        }
    }
    Some(())
}
