//! C06 — term equality is semantic, order-insensitive where NAL says so, and stable.
//! C07 — equal terms hash equally (run with `hash = true`; shares generators and pair families).
//!
//! Pairs are built along independent histories (every `HashSet::new()` draws fresh hasher keys):
//! different insertion orders, duplicates, swapped symmetric operands, push_components, separate
//! parses. Oracle: (a == b) <=> canon(desc a) == canon(desc b), computed by the harness.

use super::common::*;
use crate::desc::*;
use crate::guard::{observe, Obs};
use crate::json::J;
use crate::names::*;
use crate::rng::Rng;
use crate::shrink::shrink_term;
use crate::Ctx;
use narsese::enum_narsese::{Budget, Narsese, Sentence, Stamp, Task, Term, Truth};
use std::collections::hash_map::{DefaultHasher, RandomState};
use std::collections::{HashMap, HashSet};
use std::hash::{BuildHasher, Hash, Hasher};

/// meaning-preserving rewrite: permute / duplicate members of set-likes, swap symmetric operands
pub fn rewrite_equal(t: &TD, rng: &mut Rng) -> TD {
    let mut kids: Vec<TD> = t.kids.iter().map(|k| rewrite_equal(k, rng)).collect();
    match t.k.shape() {
        Shape::SetN => {
            rng.shuffle(&mut kids);
            if rng.chance(1, 3) && !kids.is_empty() {
                // duplicates that are themselves rewritten (semantically equal, structurally different);
                // sometimes many of them, so that batch insertion crosses the hash set's capacity steps
                // (only small members are duplicated many times, and then as plain copies, so that
                // nested sets do not multiply)
                let many = if rng.chance(1, 4) { rng.range(2, 14) } else { 1 };
                for _ in 0..many {
                    let src = kids[rng.below(kids.len())].clone();
                    if many > 1 && src.size() > 6 {
                        continue;
                    }
                    let d = if many == 1 && src.size() <= 40 { rewrite_equal(&src, rng) } else { src };
                    let pos = rng.below(kids.len() + 1);
                    kids.insert(pos, d);
                }
            }
        }
        Shape::BinSym => {
            if rng.chance(1, 2) {
                kids.swap(0, 1);
            }
        }
        _ => {}
    }
    TD { k: t.k, name: t.name.clone(), num: t.num, kids }
}

/// build with a mix of constructors and push_components
pub fn build_mixed(t: &TD, rng: &mut Rng) -> Term {
    let n = t.kids.len();
    let can_push = matches!(t.k.shape(), Shape::SetN | Shape::VecN | Shape::Image) && n >= 2;
    if can_push && rng.chance(1, 3) {
        let split = rng.range(1, n - 1);
        if t.k.shape() != Shape::Image || t.num <= split {
            let head: Vec<Term> = t.kids[..split].iter().map(|k| build_mixed(k, rng)).collect();
            let tail: Vec<Term> = t.kids[split..].iter().map(|k| build_mixed(k, rng)).collect();
            let mut term = construct(t.k, &t.name, t.num, head);
            if term.push_components(tail).is_ok() {
                return term;
            }
            // push refused (a defect of its own, owned by C17): fall through to plain build
        }
    }
    let kids: Vec<Term> = t.kids.iter().map(|k| build_mixed(k, rng)).collect();
    construct(t.k, &t.name, t.num, kids)
}

/// one semantic edit; returns None when no edit applies
pub fn near_miss(t: &TD, rng: &mut Rng) -> Option<TD> {
    // choose a node uniformly
    let n = t.size();
    let target = rng.below(n);
    let mut counter = 0usize;
    fn go(t: &TD, target: usize, counter: &mut usize, rng: &mut Rng) -> Option<TD> {
        let me = *counter;
        *counter += 1;
        if me == target {
            return edit_here(t, rng);
        }
        for (i, k) in t.kids.iter().enumerate() {
            let before = *counter;
            let sz = k.size();
            if target < before + sz {
                let nk = go(k, target, counter, rng)?;
                let mut c = t.clone();
                c.kids[i] = nk;
                return Some(c);
            }
            *counter = before + sz;
        }
        None
    }
    let r = go(t, target, &mut counter, rng)?;
    if r.canon() == t.canon() {
        None
    } else {
        Some(r)
    }
}

fn sibling_kinds(k: Kind) -> Vec<Kind> {
    let group: &[Kind] = match k.shape() {
        Shape::AtomNamed => &NAMED_ATOM_KINDS,
        Shape::SetN => &SET_KINDS,
        Shape::VecN => &VEC_KINDS,
        Shape::Image => &IMG_KINDS,
        Shape::BinSym => &BINSYM_KINDS,
        Shape::BinOrd => {
            if k.cat() == Cat::Compound {
                &BINORD_COMPOUND_KINDS
            } else {
                &BINORD_STATEMENT_KINDS
            }
        }
        _ => &[],
    };
    group.iter().copied().filter(|x| *x != k).collect()
}

fn edit_here(t: &TD, rng: &mut Rng) -> Option<TD> {
    let mut c = t.clone();
    let choice = rng.below(7);
    match (choice, t.k.shape()) {
        (6, Shape::BinOrd) | (6, Shape::BinSym) => {
            // another copula / connecter of the same group AND the operands swapped (mirrored twins such
            // as `<A =/> B>` / `<B =\> A>` are different terms)
            let sibs = sibling_kinds(t.k);
            if sibs.is_empty() || t.kids.len() != 2 {
                return None;
            }
            c.k = *rng.pick(&sibs);
            c.kids.swap(0, 1);
            Some(c)
        }
        (0, Shape::AtomNamed) => {
            c.name.push('q');
            Some(c)
        }
        (0, Shape::AtomInterval) => {
            c.num = c.num.wrapping_add(1);
            Some(c)
        }
        (1, _) => {
            let sibs = sibling_kinds(t.k);
            if sibs.is_empty() {
                return None;
            }
            c.k = *rng.pick(&sibs);
            Some(c)
        }
        (2, Shape::Image) => {
            c.num = (c.num + 1) % (c.kids.len() + 1);
            Some(c)
        }
        (2, Shape::BinOrd) | (2, Shape::VecN) if t.kids.len() >= 2 => {
            c.kids.swap(0, t.kids.len() - 1);
            Some(c)
        }
        (3, Shape::SetN) | (3, Shape::VecN) | (3, Shape::Image) => {
            c.kids.push(TD::word("zz-extra"));
            Some(c)
        }
        (4, Shape::SetN) | (4, Shape::VecN) if t.kids.len() >= 2 => {
            c.kids.remove(rng.below(t.kids.len()));
            Some(c)
        }
        (5, Shape::BinSym) | (5, Shape::BinOrd) => {
            // cross the symmetric / asymmetric boundary keeping operands
            c.k = match t.k {
                Kind::Sim => Kind::Inh,
                Kind::Inh => Kind::Sim,
                Kind::Equiv => Kind::Impl,
                Kind::Impl => Kind::Equiv,
                Kind::EquivConc => Kind::EquivPred,
                Kind::EquivPred => Kind::EquivConc,
                Kind::ImplConc => Kind::EquivConc,
                other => other,
            };
            if c.k == t.k {
                None
            } else {
                Some(c)
            }
        }
        _ => None,
    }
}

fn hash_with<H: Hasher>(t: &Term, mut h: H) -> u64 {
    t.hash(&mut h);
    h.finish()
}

/// order-sensitive FNV-1a hasher of the harness
#[derive(Default)]
struct Fnv(u64);
impl Hasher for Fnv {
    fn finish(&self) -> u64 {
        self.0
    }
    fn write(&mut self, bytes: &[u8]) {
        let mut h = if self.0 == 0 { 0xcbf2_9ce4_8422_2325 } else { self.0 };
        for b in bytes {
            h ^= *b as u64;
            h = h.wrapping_mul(0x0000_0100_0000_01B3);
        }
        self.0 = h;
    }
}

/// every description of `seq` is built into the same variable in turn (also as the only member of a
/// product held in a second variable) and compared / hashed against a boxed copy built elsewhere
fn slot_reuse_failure(seq: &[TD], hash: bool) -> Option<String> {
    // every 4th time something fails on this thread first (a refused image construction, a rejected
    // input, a user iterator or a user hasher that panics and is caught): nothing of it may reach the values below
    something_fails_first_every(4);
    let r = observe(|| -> Option<String> {
        let mut slot: Term = seq[0].build();
        let mut outer: Term = Term::new_product(vec![seq[0].build()]);
        let mut prev_canon = String::new();
        // (the copies stay alive to the end, so that no copy is allocated where an earlier one was)
        let mut keep: Vec<Box<Term>> = vec![];
        for (i, d) in seq.iter().enumerate() {
            slot = d.build();
            outer = Term::new_product(vec![d.build()]);
            keep.push(Box::new(d.build()));
            keep.push(Box::new(Term::new_product(vec![d.build()])));
            let (elsewhere, outer_elsewhere) = (&keep[keep.len() - 2], &keep[keep.len() - 1]);
            for (what, a, b) in [("the term", &slot, &**elsewhere), ("a product around the term", &outer, &**outer_elsewhere)] {
                if hash {
                    let (h1, h2) = (hash_with(a, DefaultHasher::new()), hash_with(b, DefaultHasher::new()));
                    if h1 != h2 {
                        return Some(format!("step {}: {} written over its predecessor hashes differently from an equal copy built elsewhere", i, what));
                    }
                    let mut set = HashSet::new();
                    set.insert(a.clone());
                    if !set.contains(b) {
                        return Some(format!("step {}: HashSet{{slot}}.contains(copy) is false for {}", i, what));
                    }
                } else if a != b || b != a {
                    return Some(format!("step {}: {} written over its predecessor compares unequal to an equal copy built elsewhere", i, what));
                }
            }
            if !hash && i > 0 && prev_canon != d.canon() {
                let before = seq[i - 1].build();
                if slot == before {
                    return Some(format!("step {}: the new content of the variable compares equal to the different term it replaced", i));
                }
            }
            prev_canon = d.canon();
        }
        let _ = (&slot, &outer);
        None
    });
    match r {
        Obs::Ret(x) => x,
        Obs::Panic(p) => Some(format!("panicked: {}", p)),
    }
}

/// history on one thread: shallow terms are compared / hashed, then a term with `depth` nested
/// unordered groups (or a mixed spine) is built, hashed, compared and dropped, then equal copies of
/// the shallow terms must still compare / hash the way they did
fn deep_history_failure(depth: usize, variant: usize, hash: bool) -> Option<String> {
    on_big_stack(move || -> Option<String> {
        let shallow = [
            TD::comp(Kind::SetExt, vec![TD::word("A"), TD::word("B")]),
            TD::bin(Kind::Sim, TD::word("A"), TD::comp(Kind::Conj, vec![TD::word("B"), TD::word("C")])),
            TD::comp(Kind::Product, vec![TD::comp(Kind::SetInt, vec![TD::word("x"), TD::word("y"), TD::word("z")])]),
        ];
        let before: Vec<Term> = shallow.iter().map(|d| d.build()).collect();
        let h_before: Vec<u64> = before.iter().map(|t| hash_with(t, DefaultHasher::new())).collect();
        let mut set: HashSet<Term> = before.iter().cloned().collect();
        // the deep term: all unordered groups (variant 7), or the rotating spine of `deep_td`
        let deep_desc = if variant == 7 {
            let mut t = TD::word("core");
            for i in 0..depth {
                t = if i % 2 == 0 { TD::comp(Kind::SetExt, vec![t]) } else { TD::comp(Kind::Conj, vec![t, TD::word("r")]) };
            }
            t
        } else {
            deep_td(depth, variant)
        };
        let r = observe(|| {
            let d1 = deep_desc.build();
            let d2 = deep_desc.build();
            let same = d1 == d2;
            let (x, y) = (hash_with(&d1, DefaultHasher::new()), hash_with(&d2, DefaultHasher::new()));
            set.insert(d1);
            let found = set.contains(&d2);
            (same, x == y, found)
        });
        match r {
            Obs::Ret((same, hsame, found)) => {
                if !hash && !same {
                    return Some(format!("two builds of a term nested {} deep compare unequal", depth));
                }
                if hash && (!hsame || !found) {
                    return Some(format!("two builds of a term nested {} deep hash differently / are not found in a HashSet", depth));
                }
            }
            Obs::Panic(p) => return Some(format!("panicked on a term nested {} deep: {}", depth, p)),
        }
        for (i, d) in shallow.iter().enumerate() {
            let again = d.build();
            if !hash && again != before[i] {
                return Some(format!("after handling a term nested {} deep, an equal copy of {} compares unequal to the one built before", depth, d.canon()));
            }
            if hash {
                if hash_with(&again, DefaultHasher::new()) != h_before[i] {
                    return Some(format!("after handling a term nested {} deep, {} hashes differently than before", depth, d.canon()));
                }
                if !set.contains(&again) {
                    return Some(format!("after handling a term nested {} deep, {} is no longer found in the HashSet it was inserted into", depth, d.canon()));
                }
            }
        }
        None
    })
    .unwrap_or_else(|| Some(format!("the thread handling a term nested {} deep died", depth)))
}

/// Returns a description of the first discrepancy for a pair expected equal (or not)
fn check_pair(a: &Term, b: &Term, expect_equal: bool, hash: bool) -> Option<String> {
    let r = observe(|| {
        let ab = a == b;
        let ba = b == a;
        let ab2 = a == b;
        let nab = a != b;
        (ab, ba, ab2, nab)
    });
    let (ab, ba, ab2, nab) = match r {
        Obs::Ret(x) => x,
        Obs::Panic(p) => return Some(format!("== panicked: {}", p)),
    };
    if !hash {
        if ab != expect_equal {
            return Some(format!("a == b is {} but the canonical forms are {}", ab, if expect_equal { "equal" } else { "different" }));
        }
        if ba != ab {
            return Some(format!("not symmetric: a == b is {}, b == a is {}", ab, ba));
        }
        if ab2 != ab {
            return Some("unstable: repeated a == b gave a different answer".into());
        }
        if nab == ab {
            return Some("a != b is not the negation of a == b".into());
        }
        // wrappers derive equality through Term
        let sa = Sentence::new_judgement(a.clone(), Truth::Double(1.0, 0.9), Stamp::Fixed(1));
        let sb = Sentence::new_judgement(b.clone(), Truth::Double(1.0, 0.9), Stamp::Fixed(1));
        if (sa == sb) != expect_equal {
            return Some(format!("Sentence == is {} for terms whose canonical forms are {}", sa == sb, if expect_equal { "equal" } else { "different" }));
        }
        let ta = Task::new(sa.clone(), Budget::Single(0.5));
        let tb = Task::new(sb.clone(), Budget::Single(0.5));
        if (ta == tb) != expect_equal {
            return Some("Task == disagrees with the canonical forms".into());
        }
        if (Narsese::Task(ta) == Narsese::Task(tb)) != expect_equal || (Narsese::Term(a.clone()) == Narsese::Term(b.clone())) != expect_equal {
            return Some("Narsese == disagrees with the canonical forms".into());
        }
        None
    } else {
        if !expect_equal {
            return None;
        }
        let r = observe(|| {
            let h1 = (hash_with(a, DefaultHasher::new()), hash_with(b, DefaultHasher::new()));
            let rs = RandomState::new();
            let h2 = (hash_with(a, rs.build_hasher()), hash_with(b, rs.build_hasher()));
            let h3 = (hash_with(a, Fnv::default()), hash_with(b, Fnv::default()));
            let mut set = HashSet::new();
            set.insert(a.clone());
            let contains = set.contains(b);
            set.insert(b.clone());
            let size = set.len();
            let mut map = HashMap::new();
            map.insert(a.clone(), 1u8);
            let got = map.get(b).copied();
            // the term as an element of a slice-like or composite key (std hashes those through
            // `Hash::hash_slice` / the element impls)
            let hv = |t: &Term| {
                let v = vec![Term::new_word("k"), t.clone()];
                let mut h = DefaultHasher::new();
                v.hash(&mut h);
                [t.clone()].hash(&mut h);
                v[..].hash(&mut h);
                (t.clone(), 7u8).hash(&mut h);
                Some(t.clone()).hash(&mut h);
                Box::new(t.clone()).hash(&mut h);
                h.finish()
            };
            let composite = (hv(a), hv(b));
            let mut vset: HashSet<Vec<Term>> = HashSet::new();
            vset.insert(vec![a.clone()]);
            let vcontains = vset.contains(&vec![b.clone()]);
            (h1, h2, h3, contains, size, got, composite, vcontains)
        });
        let (h1, h2, h3, contains, size, got, composite, vcontains) = match r {
            Obs::Ret(x) => x,
            Obs::Panic(p) => return Some(format!("hashing panicked: {}", p)),
        };
        if h1.0 != h1.1 {
            return Some("equal terms hash differently under DefaultHasher::new()".into());
        }
        if h2.0 != h2.1 {
            return Some("equal terms hash differently under one shared RandomState".into());
        }
        if h3.0 != h3.1 {
            return Some("equal terms hash differently under an order-sensitive FNV hasher".into());
        }
        if !contains {
            return Some("HashSet{a}.contains(b) is false for equal terms".into());
        }
        if size != 1 {
            return Some(format!("HashSet holds {} entries after inserting two equal terms", size));
        }
        if got != Some(1) {
            return Some("HashMap{a:1}.get(b) is None for equal terms".into());
        }
        if composite.0 != composite.1 {
            return Some("equal terms hash differently as elements of a Vec / array / slice / tuple / Option / Box key".into());
        }
        if !vcontains {
            return Some("HashSet{vec![a]}.contains(&vec![b]) is false for equal terms".into());
        }
        None
    }
}

#[derive(Clone, Copy, PartialEq)]
enum How {
    Ctor,
    Mixed,
    ParseAscii,
    ParseHan,
    ParseLatex,
    Clone,
    /// built by the constructors on a freshly spawned thread and handed over
    Thread,
    /// ASCII text through the lexical parser and then folded
    LexFold,
}

fn build_how(t: &TD, how: How, rng: &mut Rng) -> Option<Term> {
    // an image whose index lies behind one of its own bare placeholders (`ImageExtension(2, [R, _, a])`) is a
    // distinct value for the constructors but has the spelling of `ImageExtension(1, [R, _, a])`: no text builds it
    if !td_wellformed(t) && matches!(how, How::LexFold | How::ParseAscii | How::ParseHan | How::ParseLatex) {
        return None;
    }
    match how {
        How::Ctor | How::Clone => Some(t.build()),
        How::Thread => {
            let d = t.clone();
            std::thread::spawn(move || d.build()).join().ok()
        }
        How::Mixed => Some(build_mixed(t, rng)),
        How::LexFold => {
            let s = Fmt::Ascii.e().format_term(&t.build());
            match lex_fold_value(Fmt::Ascii, &s) {
                Some(Narsese::Term(p)) => Some(p),
                _ => None, // owned by C03
            }
        }
        How::ParseAscii | How::ParseHan | How::ParseLatex => {
            let f = match how {
                How::ParseAscii => Fmt::Ascii,
                How::ParseHan => Fmt::Han,
                _ => Fmt::Latex,
            };
            let s = f.e().format_term(&t.build());
            match f.e().parse::<Narsese>(&s) {
                Ok(Narsese::Term(p)) => Some(p),
                _ => None, // owned by C01
            }
        }
    }
}

fn pair_failure(da: &TD, db: &TD, how_a: How, how_b: How, hash: bool, reps: usize, rng: &mut Rng) -> Option<String> {
    // every 4th time something fails on this thread first (a refused image construction, a rejected
    // input, a user iterator or a user hasher that panics and is caught): nothing of it may reach the values below
    something_fails_first_every(4);
    let expect = da.canon() == db.canon();
    for _ in 0..reps {
        let a = build_how(da, how_a, rng)?;
        let b = if how_b == How::Clone && expect && da == db { a.clone() } else { build_how(db, how_b, rng)? };
        if let Some(w) = check_pair(&a, &b, expect, hash) {
            return Some(w);
        }
        // reflexivity on an independently rebuilt copy
        if !hash {
            let a2 = build_how(da, how_a, rng)?;
            if let Some(w) = check_pair(&a, &a2, true, false) {
                return Some(format!("rebuilt copy of the same description: {}", w));
            }
        }
    }
    None
}

fn how_name(h: How) -> &'static str {
    match h {
        How::Ctor => "ctor",
        How::Mixed => "ctor+push",
        How::ParseAscii => "parse-ascii",
        How::ParseHan => "parse-han",
        How::ParseLatex => "parse-latex",
        How::Clone => "clone",
        How::Thread => "ctor-on-another-thread",
        How::LexFold => "lexical-parse+fold",
    }
}

fn report_failure(ctx: &mut Ctx, da: &TD, db: &TD, how_a: How, how_b: How, hash: bool, why: String, family: &str, rng: &mut Rng) {
    let id = if hash { "C07" } else { "C06" };
    // shrink both sides jointly when they are rewrites of each other: shrink `da`, derive db by
    // re-running the same relation is not possible in general, so shrink each side separately.
    let reps = 24;
    let mut r1 = rng.fork(1);
    let sa = shrink_term(da, &mut |c| pair_failure(c, db, how_a, how_b, hash, reps, &mut r1).map_or(false, |_| (c.canon() == db.canon()) == (da.canon() == db.canon())), 150);
    let mut r2 = rng.fork(2);
    let sb = shrink_term(db, &mut |c| pair_failure(&sa, c, how_a, how_b, hash, reps, &mut r2).map_or(false, |_| (sa.canon() == c.canon()) == (da.canon() == db.canon())), 150);
    let mut r3 = rng.fork(3);
    let why2 = pair_failure(&sa, &sb, how_a, how_b, hash, 64, &mut r3).unwrap_or(why);
    let sig = format!("{}|{}|{}|{}", id, why2, sa.canon(), sb.canon());
    ctx.report.violate(
        sig,
        format!("{} for a={} b={} (built by {} / {})", why2, sa.canon(), sb.canon(), how_name(how_a), how_name(how_b)),
        J::obj()
            .set("a", sa.to_json())
            .set("b", sb.to_json())
            .set("canon_a", sa.canon())
            .set("canon_b", sb.canon())
            .set("how_a", how_name(how_a))
            .set("how_b", how_name(how_b))
            .set("family", family)
            .set("why", why2.clone()),
    );
}

pub fn run(ctx: &mut Ctx, hash: bool) {
    let names = common_safe_names();
    let g = Gen { names: &names, max_depth: 6, max_arity: 4, placeholders: true, set_bias: true };
    let mut rng = ctx.rng(if hash { 0xC07 } else { 0xC06 });
    let reps = if ctx.thorough { 6 } else { 8 };
    let n = if hash { ctx.share(1_000_000, 10_000_000) } else { ctx.share(1_000_000, 12_000_000) };

    // (0) fixed small-scope family: every set-like kind nested in every set-like kind / symmetric
    // statement, with 3 distinct members, all 6 insertion orders of the inner set vs the first one.
    let mut idx = 0usize;
    let atoms = [TD::word("a"), TD::word("b"), TD::word("c")];
    let perms: [[usize; 3]; 6] = [[0, 1, 2], [0, 2, 1], [1, 0, 2], [1, 2, 0], [2, 0, 1], [2, 1, 0]];
    for outer in SET_KINDS.iter().chain(BINSYM_KINDS.iter()) {
        for inner in SET_KINDS.iter().chain(BINSYM_KINDS.iter()) {
            for p in perms.iter() {
                idx += 1;
                if !ctx.mine(idx) {
                    continue;
                }
                let mk_inner = |order: &[usize; 3]| {
                    if inner.shape() == Shape::BinSym {
                        TD::bin(*inner, atoms[order[0]].clone(), atoms[order[1] % 2 + if order[0] == order[1] % 2 { 1 } else { 0 }].clone())
                    } else {
                        TD::comp(*inner, order.iter().map(|i| atoms[*i].clone()).collect())
                    }
                };
                let mk = |order: &[usize; 3], flip: bool| {
                    let i = mk_inner(order);
                    let d = TD::word("d");
                    let kids = if flip { vec![d, i] } else { vec![i, d] };
                    TD::comp(*outer, kids)
                };
                let da = mk(&perms[0], false);
                let db = mk(p, p[0] % 2 == 1);
                for how in [How::Ctor, How::ParseAscii, How::Thread, How::LexFold] {
                    ctx.report.eval();
                    ctx.report.bump("family.small-scope");
                    if has_nested_unordered(&da) {
                        ctx.report.nontrivial(&format!("{}≟{}", da.canon(), db.canon()));
                    }
                    if let Some(w) = pair_failure(&da, &db, How::Ctor, how, hash, 8, &mut rng) {
                        report_failure(ctx, &da, &db, How::Ctor, how, hash, w, "small-scope", &mut rng);
                    }
                }
            }
        }
    }

    // (0b) large arities: unordered compounds with 17..48 distinct members, two insertion orders,
    // bare and nested in another unordered compound; built on this thread and on another one
    for (ki, k) in SET_KINDS.iter().enumerate() {
        for arity in [17usize, 18, 24, 33, 48] {
            idx += 1;
            if !ctx.mine(idx) {
                continue;
            }
            let members: Vec<TD> = (0..arity).map(|i| TD::word(&format!("m{}", i))).collect();
            let mut other = members.clone();
            rng.shuffle(&mut other);
            let a = TD::comp(*k, members);
            let b = TD::comp(*k, other);
            let outer = SET_KINDS[(ki + 1) % SET_KINDS.len()];
            let na = TD::comp(outer, vec![a.clone(), TD::word("z")]);
            let nb = TD::comp(outer, vec![TD::word("z"), b.clone()]);
            for (da, db) in [(&a, &b), (&na, &nb)] {
                for how in [How::Ctor, How::Thread, How::ParseAscii] {
                    ctx.report.eval();
                    ctx.report.bump("family.large-arity");
                    ctx.report.nontrivial(&format!("{}≟{}", da.canon(), db.canon()));
                    if let Some(w) = pair_failure(da, db, How::Ctor, how, hash, 4, &mut rng) {
                        report_failure(ctx, da, db, How::Ctor, how, hash, w, "large-arity", &mut rng);
                    }
                }
            }
        }
    }

    // (0b') images that differ only in the index, with bare placeholders among the stored components
    // between the two indices: different values (the index is a number of the constructor), although
    // the iterator-with-placeholder sequences - and the spellings - coincide
    for k in IMG_KINDS {
        for n in 1..=4usize {
            for ph in 0..n {
                let mut kids: Vec<TD> = (0..n).map(|i| TD::word(["R", "a", "b", "c"][i])).collect();
                kids[ph] = TD::placeholder();
                for i in 0..=n {
                    for j in 0..=n {
                        idx += 1;
                        if !ctx.mine(idx) {
                            continue;
                        }
                        let (da, db) = (TD::image(k, i, kids.clone()), TD::image(k, j, kids.clone()));
                        for wrap in 0..3 {
                            let (wa, wb) = match wrap {
                                0 => (da.clone(), db.clone()),
                                1 => (TD::comp(Kind::SetExt, vec![da.clone(), TD::word("z")]), TD::comp(Kind::SetExt, vec![TD::word("z"), db.clone()])),
                                _ => (TD::bin(Kind::Sim, da.clone(), TD::word("z")), TD::bin(Kind::Sim, TD::word("z"), db.clone())),
                            };
                            ctx.report.eval();
                            ctx.report.bump("family.image-index-vs-stored-placeholder");
                            ctx.report.nontrivial(&format!("{}≟{}", wa.canon(), wb.canon()));
                            if let Some(w) = pair_failure(&wa, &wb, How::Ctor, How::Ctor, hash, 2, &mut rng) {
                                report_failure(ctx, &wa, &wb, How::Ctor, How::Ctor, hash, w, "image-index", &mut rng);
                            }
                        }
                    }
                }
            }
        }
    }

    // (0b+) extreme arities: an unordered compound of 256..1000 members nested in a set, in a symmetric
    // statement and in a product, built twice with the members inserted in opposite orders; and every
    // pair of statement kinds over the same / mirrored operands
    for k in SET_KINDS {
        for n in [256usize, 300, 1000] {
            idx += 1;
            if !ctx.mine(idx) {
                continue;
            }
            let fwd: Vec<TD> = (0..n).map(|i| TD::word(&format!("m{}", i))).collect();
            let mut rev = fwd.clone();
            rev.reverse();
            let (a, b) = (TD::comp(k, fwd), TD::comp(k, rev));
            for wrap in 0..3 {
                let (wa, wb) = match wrap {
                    0 => (TD::comp(Kind::SetExt, vec![a.clone(), TD::word("z")]), TD::comp(Kind::SetExt, vec![TD::word("z"), b.clone()])),
                    1 => (TD::bin(Kind::Sim, a.clone(), TD::word("z")), TD::bin(Kind::Sim, TD::word("z"), b.clone())),
                    _ => (TD::comp(Kind::Product, vec![a.clone(), TD::word("z")]), TD::comp(Kind::Product, vec![b.clone(), TD::word("z")])),
                };
                ctx.report.eval();
                ctx.report.bump("family.extreme-arity");
                ctx.report.nontrivial(&format!("wide|{}|{}|{}", k.tag(), n, wrap));
                if let Some(w) = pair_failure(&wa, &wb, How::Ctor, How::Ctor, hash, 2, &mut rng) {
                    ctx.report.violate(
                        format!("{}|extreme-arity|{}|{}", if hash { "C07" } else { "C06" }, k.tag(), w),
                        format!("{} for a {} of {} members built in two insertion orders (wrapper {})", w, k.tag(), n, wrap),
                        J::obj().set("kind", "extreme-arity").set("k", k.tag()).set("n", n as u64).set("wrap", wrap as u64),
                    );
                }
            }
        }
    }
    {
        let (x, y) = (TD::word("A"), TD::comp(Kind::SetExt, vec![TD::word("B"), TD::word("C")]));
        let stmt: Vec<Kind> = BINORD_STATEMENT_KINDS.iter().chain(BINSYM_KINDS.iter()).chain(BINORD_COMPOUND_KINDS.iter()).copied().collect();
        for k1 in &stmt {
            for k2 in &stmt {
                for mirrored in [false, true] {
                    idx += 1;
                    if !ctx.mine(idx) {
                        continue;
                    }
                    let da = TD::bin(*k1, x.clone(), y.clone());
                    let db = if mirrored { TD::bin(*k2, y.clone(), x.clone()) } else { TD::bin(*k2, x.clone(), y.clone()) };
                    ctx.report.eval();
                    ctx.report.bump("family.statement-kind-pairs");
                    ctx.report.nontrivial(&format!("{}≟{}", da.canon(), db.canon()));
                    if let Some(w) = pair_failure(&da, &db, How::Ctor, How::Ctor, hash, 2, &mut rng) {
                        report_failure(ctx, &da, &db, How::Ctor, How::Ctor, hash, w, "statement-kind-pairs", &mut rng);
                    }
                }
            }
        }
    }

    // (0b++) a very deep term in the history of the thread
    for depth in [129usize, 200, 300, 600] {
        for variant in [0usize, 1, 4, 7] {
            idx += 1;
            if !ctx.mine(idx) || !big_stacks_available() {
                continue;
            }
            ctx.report.eval();
            ctx.report.bump("family.deep-term-in-the-history");
            ctx.report.nontrivial(&format!("deep-history|{}|{}", depth, variant));
            if let Some(w) = deep_history_failure(depth, variant, hash) {
                ctx.report.violate(
                    format!("{}|deep-history|{}|{}", if hash { "C07" } else { "C06" }, variant, w),
                    w.clone(),
                    J::obj().set("kind", "deep-history").set("depth", depth as u64).set("variant", variant as u64),
                );
            }
        }
    }

    // (0b-c) clones that diverge and meet again: two clones of one unordered compound (they share the hash
    // seed of the original) receive the same extra members in different orders - and one of them some
    // members more that are taken out again through the public field - and must compare / hash equal,
    // alone and as members of separately built outer compounds
    for k in SET_KINDS {
        for (nb, ne) in [(1usize, 2usize), (3, 4), (4, 9), (8, 30), (2, 70)] {
            idx += 1;
            if !ctx.mine(idx) {
                continue;
            }
            ctx.report.eval();
            ctx.report.bump("family.diverged-clones");
            ctx.report.nontrivial(&format!("clones|{}|{}|{}", k.tag(), nb, ne));
            let kk = k;
            let r = observe(move || -> Option<String> {
                let base = TD::comp(kk, (0..nb).map(|i| TD::word(&format!("b{}", i))).collect()).build();
                let extra: Vec<Term> = (0..ne).map(|i| Term::new_word(format!("e{}", i))).collect();
                for round in 0..6usize {
                    let (mut c1, mut c2) = (base.clone(), base.clone());
                    let mut rev = extra.clone();
                    rev.reverse();
                    let rot__ = round % rev.len().max(1);
                    rev.rotate_left(rot__);
                    if c1.push_components(extra.clone()).is_err() || c2.push_components(rev).is_err() {
                        return None; // owned by C17
                    }
                    // grow and shrink one of them through the public variant field
                    if let Term::SetExtension(s) | Term::SetIntension(s) | Term::IntersectionExtension(s) | Term::IntersectionIntension(s) | Term::Conjunction(s) | Term::Disjunction(s) | Term::ConjunctionParallel(s) = &mut c2 {
                        let tmp: Vec<Term> = (0..40 + round).map(|i| Term::new_word(format!("tmp{}", i))).collect();
                        for t in &tmp {
                            s.insert(t.clone());
                        }
                        for t in &tmp {
                            s.remove(t);
                        }
                    }
                    let pairs = [
                        (c1.clone(), c2.clone()),
                        (Term::new_set_extension(vec![c1.clone(), Term::new_word("z")]), Term::new_set_extension(vec![Term::new_word("z"), c2.clone()])),
                        (Term::new_similarity(c1.clone(), Term::new_word("z")), Term::new_similarity(Term::new_word("z"), c2.clone())),
                    ];
                    for (a, b) in pairs.iter() {
                        if hash {
                            if hash_with(a, DefaultHasher::new()) != hash_with(b, DefaultHasher::new()) {
                                return Some("two clones that received the same members by different routes hash differently".into());
                            }
                            let mut set = HashSet::new();
                            set.insert(a.clone());
                            if !set.contains(b) {
                                return Some("HashSet{clone 1}.contains(clone 2) is false although both hold the same members".into());
                            }
                        } else if a != b || b != a || !(a == b) {
                            return Some("two clones that received the same members by different routes compare unequal".into());
                        }
                    }
                }
                None
            });
            let why = match r {
                Obs::Ret(x) => x,
                Obs::Panic(p) => Some(format!("panicked: {}", p)),
            };
            if let Some(w) = why {
                ctx.report.violate(
                    format!("{}|diverged-clones|{}|{}", if hash { "C07" } else { "C06" }, k.tag(), w),
                    format!("{} ({} with {} original and {} added members)", w, k.tag(), nb, ne),
                    J::obj().set("kind", "diverged-clones").set("k", k.tag()),
                );
            }
        }
    }

    // (0b'') values that replace one another in the same place: a term is hashed, then overwritten (same
    // variable, so the same address) by a different term of the same kind and size, which must hash and
    // compare like an independently built copy of itself that lives elsewhere
    for k in SET_KINDS.iter().chain(VEC_KINDS.iter()) {
        for n in [1usize, 3, 16, 17, 63, 64, 65, 100, 130] {
            idx += 1;
            if !ctx.mine(idx) {
                continue;
            }
            let mk = |p: &str| TD::comp(*k, (0..n).map(|i| TD::word(&format!("{}{}", p, i))).collect());
            let seq = [mk("m"), mk("q"), mk("m"), mk("r")];
            ctx.report.eval();
            ctx.report.bump("family.overwritten-in-place");
            ctx.report.nontrivial(&format!("slot|{}|{}", k.tag(), n));
            if let Some(w) = slot_reuse_failure(&seq, hash) {
                ctx.report.violate(
                    format!("{}|slot|{}|{}", if hash { "C07" } else { "C06" }, k.tag(), w),
                    format!("{} ({} with {} components, sequence m, q, m, r written into one variable)", w, k.tag(), n),
                    J::obj().set("kind", "slot").set("seq", J::Arr(seq.iter().map(|t| t.to_json()).collect())).set("why", w.clone()),
                );
            }
        }
    }

    // (0c) atoms that share a name / number text across kinds, in one unordered group:
    // Word("12") next to Interval(12), "_" next to Word(""), the five named kinds with one name
    {
        let keys = ["12", "0", "7", "x", "", "_", "18446744073709551615"];
        for (gi, group_kind) in SET_KINDS.iter().chain(BINSYM_KINDS.iter()).enumerate() {
            for (ki, key) in keys.iter().enumerate() {
                idx += 1;
                if !ctx.mine(idx) {
                    continue;
                }
                let mut atoms: Vec<TD> = NAMED_ATOM_KINDS.iter().map(|k| TD::atom(*k, key)).collect();
                if let Ok(n) = key.parse::<usize>() {
                    atoms.push(TD::interval(n));
                }
                atoms.push(TD::placeholder());
                // operands of the same shape that differ only in the kind of an inner same-named atom
                for wrap in [Kind::SetExt, Kind::Product, Kind::Neg, Kind::SetInt] {
                    for x in 0..atoms.len() {
                        for y in 0..atoms.len() {
                            if x == y || group_kind.shape() != Shape::BinSym {
                                continue;
                            }
                            let wa = TD::comp(wrap, vec![atoms[x].clone()]);
                            let wb = TD::comp(wrap, vec![atoms[y].clone()]);
                            let da = TD::bin(*group_kind, wa.clone(), wb.clone());
                            let db = TD::bin(*group_kind, wb, wa);
                            ctx.report.eval();
                            ctx.report.bump("family.same-key-atoms");
                            ctx.report.nontrivial(&format!("{}≟{}", da.canon(), db.canon()));
                            if let Some(w) = pair_failure(&da, &db, How::Ctor, How::Ctor, hash, 3, &mut rng) {
                                report_failure(ctx, &da, &db, How::Ctor, How::Ctor, hash, w, "same-key-atoms", &mut rng);
                            }
                        }
                    }
                }
                // all pairs for symmetric statements, the whole group and sub-groups for sets
                for x in 0..atoms.len() {
                    for y in 0..atoms.len() {
                        if x == y {
                            continue;
                        }
                        let (da, db) = if group_kind.shape() == Shape::BinSym {
                            (TD::bin(*group_kind, atoms[x].clone(), atoms[y].clone()), TD::bin(*group_kind, atoms[y].clone(), atoms[x].clone()))
                        } else {
                            let mut rest: Vec<TD> = atoms.iter().enumerate().filter(|(i, _)| *i != x && (*i + ki + gi) % 3 != 0).map(|(_, a)| a.clone()).collect();
                            let a = { let mut v = vec![atoms[x].clone(), atoms[y].clone()]; v.extend(rest.clone()); TD::comp(*group_kind, v) };
                            rest.reverse();
                            let b = { let mut v = rest; v.push(atoms[y].clone()); v.push(atoms[x].clone()); TD::comp(*group_kind, v) };
                            (a, b)
                        };
                        ctx.report.eval();
                        ctx.report.bump("family.same-key-atoms");
                        ctx.report.nontrivial(&format!("{}≟{}", da.canon(), db.canon()));
                        if let Some(w) = pair_failure(&da, &db, How::Ctor, How::Ctor, hash, 6, &mut rng) {
                            report_failure(ctx, &da, &db, How::Ctor, How::Ctor, hash, w, "same-key-atoms", &mut rng);
                        }
                    }
                }
            }
        }
    }

    for i in 0..n {
        if ctx.out_of_time() {
            ctx.report.inconclusive.push(format!("random pair workload cut at {} of {} by the time budget", i, n));
            break;
        }
        let depth = 2 + rng.below(4);
        let da = g.term_x(&mut rng, depth);
        let family = match i % 4 {
            0 | 1 => "equal-by-construction",
            2 => "near-miss",
            _ => "random",
        };
        let db = match family {
            "equal-by-construction" => rewrite_equal(&da, &mut rng),
            "near-miss" => match near_miss(&da, &mut rng) {
                Some(x) => x,
                None => continue,
            },
            _ => {
                if rng.chance(1, 2) {
                    g.term(&mut rng, depth, false)
                } else {
                    // related: rewrite then maybe edit
                    let r = rewrite_equal(&da, &mut rng);
                    near_miss(&r, &mut rng).unwrap_or(r)
                }
            }
        };
        if hash && da.canon() != db.canon() {
            continue;
        }
        // constructions on another thread are kept rare in the random family (a spawn + join per
        // build is slow on a loaded machine); the small-scope and large-arity families use them always
        let pick_how = |rng: &mut Rng, with_clone: bool| -> How {
            if rng.chance(1, 40) {
                How::Thread
            } else {
                let pool = [How::Ctor, How::Mixed, How::ParseAscii, How::ParseHan, How::ParseLatex, How::LexFold, How::Clone];
                *rng.pick(&pool[..if with_clone { 7 } else { 6 }])
            }
        };
        let how_a = pick_how(&mut rng, false);
        let how_b = pick_how(&mut rng, true);
        let how_b = if how_b == How::Clone && da != db { How::Ctor } else { how_b };
        ctx.report.eval();
        ctx.report.bump(&format!("family.{}", family));
        ctx.report.bump(&format!("build.{}", how_name(how_a)));
        ctx.report.bump(&format!("build.{}", how_name(how_b)));
        let equal = da.canon() == db.canon();
        ctx.report.bump(if equal { "expected.equal" } else { "expected.unequal" });
        if has_nested_unordered(&da) {
            ctx.report.nontrivial(&format!("{}≟{}", da.canon(), db.canon()));
            ctx.report.bump("nested-unordered pairs");
        }
        ctx.report.sample(|| J::obj().set("a", da.canon()).set("b", db.canon()).set("expected_equal", equal).set("family", family));
        // large values are rebuilt fewer times (each rebuild is a new history anyway)
        let r = if !equal { 2 } else if da.size() > 40 { 2 } else { reps };
        if let Some(w) = pair_failure(&da, &db, how_a, how_b, hash, r, &mut rng) {
            report_failure(ctx, &da, &db, how_a, how_b, hash, w, family, &mut rng);
        }
        // class of several variants: set size must be 1 (C07), all pairwise equal (C06)
        if equal && i % 16 == 0 {
            let variants: Vec<TD> = (0..4).map(|_| rewrite_equal(&da, &mut rng)).collect();
            let built: Vec<Term> = variants.iter().map(|v| build_mixed(v, &mut rng)).collect();
            ctx.report.bump("classes of 4 variants");
            if hash {
                let r = observe(|| {
                    let mut set = HashSet::new();
                    for t in &built {
                        set.insert(t.clone());
                    }
                    set.len()
                });
                if let Obs::Ret(sz) = r {
                    if sz != 1 {
                        report_failure(ctx, &variants[0], &variants[1], How::Mixed, How::Mixed, true, format!("HashSet holds {} entries after inserting 4 equal terms", sz), "class", &mut rng);
                    }
                }
            } else {
                for x in 0..built.len() {
                    for y in 0..built.len() {
                        if let Some(w) = check_pair(&built[x], &built[y], true, false) {
                            report_failure(ctx, &variants[x], &variants[y], How::Mixed, How::Mixed, false, format!("(transitivity class) {}", w), "class", &mut rng);
                        }
                    }
                }
            }
        }
    }
    ctx.report.note(
        "rule",
        "a case = a pair of term descriptions built along independent histories; non-trivial = an unordered compound with >= 2 distinct members (or a symmetric statement with distinct operands) nested inside another unordered compound or symmetric statement; distinct = distinct (canon a, canon b)",
    );
}

pub fn replay(ctx: &mut Ctx, d: &J, hash: bool) -> Option<()> {
    if jstr(d, "kind").as_deref() == Some("deep-history") {
        let (depth, variant) = (d.get("depth")?.as_i128()? as usize, d.get("variant")?.as_i128()? as usize);
        if let Some(w) = deep_history_failure(depth, variant, hash) {
            ctx.report.violate(format!("{}|deep-history|{}", if hash { "C07" } else { "C06" }, w), w, d.clone());
        }
        return Some(());
    }
    if matches!(jstr(d, "kind").as_deref(), Some("extreme-arity") | Some("diverged-clones")) {
        super::rerun_fixed(ctx);
        return Some(());
    }
    if jstr(d, "kind").as_deref() == Some("slot") {
        let seq: Vec<TD> = d.get("seq")?.as_arr()?.iter().filter_map(TD::from_json).collect();
        if let Some(w) = slot_reuse_failure(&seq, hash) {
            ctx.report.violate(format!("{}|slot|{}", if hash { "C07" } else { "C06" }, w), w, d.clone());
        }
        return Some(());
    }
    let da = TD::from_json(d.get("a")?)?;
    let db = TD::from_json(d.get("b")?)?;
    let parse_how = |s: &str| match s {
        "ctor+push" => How::Mixed,
        "parse-ascii" => How::ParseAscii,
        "parse-han" => How::ParseHan,
        "parse-latex" => How::ParseLatex,
        "clone" => How::Clone,
        "ctor-on-another-thread" => How::Thread,
        "lexical-parse+fold" => How::LexFold,
        _ => How::Ctor,
    };
    let ha = parse_how(&jstr(d, "how_a").unwrap_or_default());
    let hb = parse_how(&jstr(d, "how_b").unwrap_or_default());
    let mut rng = Rng::new(ctx.seed);
    if let Some(w) = pair_failure(&da, &db, ha, hb, hash, 256, &mut rng) {
        ctx.report.violate(format!("{}|{}|{}", w, da.canon(), db.canon()), w, d.clone());
    }
    Some(())
}
