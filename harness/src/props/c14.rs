//! C14 — component access, category and capacity of terms are mutually consistent.

use super::common::*;
use crate::desc::*;
use crate::guard::{observe, Obs};
use crate::json::J;
use crate::lexgen;
use crate::names::*;
use crate::shrink::shrink_term;
use crate::Ctx;
use narsese::api::{ExtractTerms, GetCapacity, GetCategory, TermCapacity, TermCategory};
use narsese::conversion::inter_type::lexical_fold::TryFoldInto;
use narsese::enum_narsese::Term;
use narsese::lexical::Term as LexTerm;

fn expected_capacity(k: Kind) -> TermCapacity {
    match k.shape() {
        Shape::AtomNamed | Shape::AtomPlaceholder | Shape::AtomInterval => TermCapacity::Atom,
        Shape::Unary => TermCapacity::Unary,
        Shape::BinOrd => TermCapacity::BinaryVec,
        Shape::BinSym => TermCapacity::BinarySet,
        Shape::VecN | Shape::Image => TermCapacity::Vec,
        Shape::SetN => TermCapacity::Set,
    }
}

fn expected_category(k: Kind) -> TermCategory {
    match k.cat() {
        Cat::Atom => TermCategory::Atom,
        Cat::Compound => TermCategory::Compound,
        Cat::Statement => TermCategory::Statement,
    }
}

/// reference component list (canonical strings) including the image placeholder
fn ref_components(t: &TD, with_placeholder: bool) -> (Vec<String>, bool) {
    match t.k.shape() {
        Shape::AtomNamed | Shape::AtomPlaceholder | Shape::AtomInterval => (vec![t.canon()], true),
        Shape::SetN => {
            let mut cs: Vec<String> = t.kids.iter().map(|k| k.canon()).collect();
            cs.sort();
            cs.dedup();
            (cs, false)
        }
        Shape::Image => {
            let mut cs: Vec<String> = t.kids.iter().map(|k| k.canon()).collect();
            if with_placeholder {
                cs.insert(t.num, "_".to_string());
            }
            (cs, true)
        }
        // symmetric statements are unordered: their two operands are compared as a multiset
        Shape::BinSym => {
            let mut cs: Vec<String> = t.kids.iter().map(|k| k.canon()).collect();
            cs.sort();
            (cs, false)
        }
        _ => (t.kids.iter().map(|k| k.canon()).collect(), true),
    }
}

pub fn term_failure(td: &TD) -> Option<String> {
    let t = match observe(|| td.build()) {
        Obs::Ret(t) => t,
        Obs::Panic(p) => return Some(format!("building panicked: {}", p)),
    };
    let r = observe(|| {
        let with: Vec<String> = t.get_components_including_placeholder().into_iter().map(canon_real).collect();
        let without: Vec<String> = t.get_components().into_iter().map(canon_real).collect();
        let compound: Option<Vec<String>> = t.get_compound_components().map(|v| v.into_iter().map(canon_real).collect());
        let extracted: Vec<String> = t.clone().extract_terms_to_vec().iter().map(canon_real).collect();
        let extracted2: Vec<String> = t.clone().extract_terms().map(|x| canon_real(&x)).collect();
        let cat = t.get_category();
        let cap = t.get_capacity();
        let preds_cat = (t.is_atom(), t.is_compound(), t.is_statement());
        let preds_cap = (
            t.is_capacity_atom(),
            t.is_capacity_unary(),
            t.is_capacity_binary(),
            t.is_capacity_binary_vec(),
            t.is_capacity_binary_set(),
            t.is_capacity_multi(),
            t.is_capacity_vec(),
            t.is_capacity_set(),
        );
        (with, without, compound, extracted, extracted2, cat, cap, preds_cat, preds_cap, t.is_image())
    });
    let (with, without, compound, extracted, extracted2, cat, cap, pc, pcap, is_image) = match r {
        Obs::Ret(x) => x,
        Obs::Panic(p) => return Some(format!("an accessor panicked: {}", p)),
    };
    let (ref_with, ordered) = ref_components(td, true);
    let (ref_without, _) = ref_components(td, false);
    let norm = |mut v: Vec<String>| {
        if !ordered {
            v.sort();
        }
        v
    };
    if norm(with.clone()) != ref_with {
        return Some(format!("get_components_including_placeholder = {:?}, expected {:?}", with, ref_with));
    }
    if norm(without.clone()) != ref_without {
        return Some(format!("get_components = {:?}, expected {:?}", without, ref_without));
    }
    if norm(extracted.clone()) != ref_with {
        return Some(format!("extract_terms_to_vec = {:?}, expected {:?}", extracted, ref_with));
    }
    if extracted2 != extracted && ordered {
        return Some("extract_terms and extract_terms_to_vec disagree".into());
    }
    if ordered && extracted != with {
        return Some("extraction order differs from the borrowing accessor".into());
    }
    if td.k.shape() == Shape::Image {
        // the public borrowing iterator of images under the std adaptors (`nth`, `skip`, `step_by`,
        // `last`, `count`, partial consumption first): the same items as the accessor's vector
        {
            use narsese::enum_narsese::ImageIterator;
            let real = td.build();
            let comps = real.get_components();
            let mk = || ImageIterator::new(comps.iter().copied(), td.num);
            let c = |t: &Term| canon_real(t);
            let want = &with;
            let r = observe(|| -> Option<String> {
                let n = want.len();
                if mk().count() != n {
                    return Some("count() of the image iterator differs from the accessor's length".into());
                }
                if mk().last().map(c) != want.last().cloned() {
                    return Some("last() of the image iterator differs from the accessor's last item".into());
                }
                for k in 0..=n {
                    if mk().nth(k).map(c) != want.get(k).cloned() {
                        return Some(format!("nth({}) of a fresh image iterator = {:?}, the accessor has {:?}", k, mk().nth(k).map(c), want.get(k)));
                    }
                }
                for step in 1..=3usize {
                    for skip in 0..=2usize {
                        let got: Vec<String> = mk().skip(skip).step_by(step).map(c).collect();
                        let exp: Vec<String> = want.iter().skip(skip).step_by(step).cloned().collect();
                        if got != exp {
                            return Some(format!("skip({}).step_by({}) over the image iterator = {:?}, over the accessor's vector {:?}", skip, step, got, exp));
                        }
                    }
                }
                // partial consumption, then a jump
                for first in 0..n {
                    for jump in 0..3usize {
                        let mut it = mk();
                        for _ in 0..first {
                            it.next();
                        }
                        if it.nth(jump).map(c) != want.get(first + jump).cloned() {
                            return Some(format!("after {} next() calls, nth({}) of the image iterator differs from item {} of the accessor", first, jump, first + jump));
                        }
                    }
                    if n > 12 && first > 4 && first + 4 < n {
                        continue;
                    }
                }
                None
            });
            match r {
                Obs::Ret(Some(w)) => return Some(w),
                Obs::Ret(None) => {}
                Obs::Panic(p) => return Some(format!("the image iterator panicked under an adaptor: {}", p)),
            }
        }
        if !is_image {
            return Some("is_image is false for an image".into());
        }
        if extracted.get(td.num).map(|s| s.as_str()) != Some("_") {
            return Some(format!("extracted image has no placeholder at its index {}: {:?}", td.num, extracted));
        }
        // (a placeholder that is itself a stored component - e.g. from `(/, a, _, _)` - stays)
        let stored = td.kids.iter().filter(|k| k.k == Kind::Placeholder).count();
        if without.iter().filter(|c| *c == "_").count() != stored {
            return Some("get_components of an image contains the placeholder".into());
        }
        if with.len() != without.len() + 1 {
            return Some("image accessor lengths are inconsistent".into());
        }
    } else if is_image {
        return Some("is_image is true for a non-image".into());
    }
    match (td.k.cat() == Cat::Compound, &compound) {
        (true, Some(c)) => {
            if norm(c.clone()) != ref_without {
                return Some("get_compound_components differs from get_components".into());
            }
        }
        (false, None) => {}
        (true, None) => return Some("get_compound_components is None for a compound".into()),
        (false, Some(_)) => return Some("get_compound_components is Some for a non-compound".into()),
    }
    // category: exactly one holds and it is the documented one
    let want_cat = expected_category(td.k);
    if cat != want_cat {
        return Some(format!("category {:?}, expected {:?}", cat, want_cat));
    }
    let flags = [pc.0, pc.1, pc.2];
    if flags.iter().filter(|b| **b).count() != 1 {
        return Some(format!("category predicates do not partition: {:?}", pc));
    }
    if pc.0 != (cat == TermCategory::Atom) || pc.1 != (cat == TermCategory::Compound) || pc.2 != (cat == TermCategory::Statement) {
        return Some("category predicates disagree with get_category".into());
    }
    // capacity
    let want_cap = expected_capacity(td.k);
    if cap != want_cap {
        return Some(format!("capacity {:?}, expected {:?}", cap, want_cap));
    }
    let want_preds = (
        cap == TermCapacity::Atom,
        cap == TermCapacity::Unary,
        matches!(cap, TermCapacity::BinaryVec | TermCapacity::BinarySet),
        cap == TermCapacity::BinaryVec,
        cap == TermCapacity::BinarySet,
        matches!(cap, TermCapacity::Vec | TermCapacity::Set),
        cap == TermCapacity::Vec,
        cap == TermCapacity::Set,
    );
    if pcap != want_preds {
        return Some(format!("capacity predicates {:?} disagree with get_capacity {:?}", pcap, cap));
    }
    // capacity agrees with the count
    let count = without.len();
    match cap {
        TermCapacity::Atom | TermCapacity::Unary => {
            if count != 1 {
                return Some(format!("capacity {:?} but {} components", cap, count));
            }
        }
        TermCapacity::BinaryVec | TermCapacity::BinarySet => {
            if count != 2 {
                return Some(format!("capacity {:?} but {} components", cap, count));
            }
        }
        _ => {}
    }
    None
}

fn lex_failure(f: Fmt, x: &LexTerm) -> Option<String> {
    let stored: Vec<LexTerm> = match x {
        LexTerm::Atom { .. } => vec![x.clone()],
        LexTerm::Compound { terms, .. } | LexTerm::Set { terms, .. } => terms.clone(),
        LexTerm::Statement { subject, predicate, .. } => vec![(**subject).clone(), (**predicate).clone()],
    };
    let ex = match observe(|| x.clone().extract_terms_to_vec()) {
        Obs::Ret(v) => v,
        Obs::Panic(p) => return Some(format!("lexical extract_terms panicked: {}", p)),
    };
    if ex.iter().map(lexgen::lex_term_canon).collect::<Vec<_>>() != stored.iter().map(lexgen::lex_term_canon).collect::<Vec<_>>() {
        return Some("lexical extract_terms differs from the stored components".into());
    }
    let cat = x.get_category();
    let want = match x {
        LexTerm::Atom { .. } => TermCategory::Atom,
        LexTerm::Compound { .. } | LexTerm::Set { .. } => TermCategory::Compound,
        LexTerm::Statement { .. } => TermCategory::Statement,
    };
    if cat != want {
        return Some(format!("lexical category {:?}, expected {:?}", cat, want));
    }
    if [x.is_atom(), x.is_compound(), x.is_statement()].iter().filter(|b| **b).count() != 1 {
        return Some("lexical category predicates do not partition".into());
    }
    match observe(|| x.clone().try_fold_into(f.e())) {
        Obs::Ret(Ok(t)) => {
            let t: Term = t;
            if t.get_category() != cat {
                return Some(format!("category(x) = {:?} but category(fold x) = {:?}", cat, t.get_category()));
            }
        }
        Obs::Ret(Err(_)) => {} // not foldable: nothing to compare (arity-valid generator keeps this rare)
        Obs::Panic(p) => return Some(format!("fold panicked: {}", p)),
    }
    None
}

fn check(ctx: &mut Ctx, td: &TD, family: &str) {
    ctx.report.eval();
    ctx.report.bump(&format!("family.{}", family));
    ctx.report.bump(&format!("ctor.{}", td.k.tag()));
    if td.k.shape() == Shape::Image {
        ctx.report.bump(if td.num == td.kids.len() { "image.index=len" } else if td.num == 0 { "image.index=0" } else { "image.index=inner" });
        if td.kids.len() == 1 {
            ctx.report.bump("image.single-component");
        }
    }
    if !td.kids.is_empty() {
        ctx.report.nontrivial(&td.canon());
    }
    ctx.report.sample(|| J::obj().set("term", td.canon()));
    if let Some(w) = term_failure(td) {
        let small = shrink_term(td, &mut |c| term_failure(c).is_some(), 300);
        let w2 = term_failure(&small).unwrap_or(w);
        ctx.report.violate(
            format!("C14|enum|{}", small.canon()),
            format!("{} for {}", w2, small.canon()),
            J::obj().set("model", "enum").set("term", small.to_json()).set("canon", small.canon()).set("why", w2.clone()),
        );
    }
}

pub fn run(ctx: &mut Ctx) {
    // exhaustive depth<=1 universe incl. every image index 0..=n for n<=5 and single-component compounds
    let mut idx = 0usize;
    let base = base_atoms(&["A", "B", "C"]);
    let mut items: Vec<TD> = base.clone();
    items.push(TD::placeholder());
    items.extend(universe_over(&base[..4], 3, true));
    for k in IMG_KINDS {
        for n in 1..=5usize {
            let kids: Vec<TD> = (0..n).map(|i| base[i % base.len()].clone()).collect();
            for i in 0..=n {
                items.push(TD::image(k, i, kids.clone()));
            }
        }
    }
    // long images: every placeholder index of images with 8..33 components
    for k in IMG_KINDS {
        for n in [8usize, 9, 15, 16, 17, 20, 33] {
            let kids: Vec<TD> = (0..n).map(|i| TD::word(&format!("c{}", i))).collect();
            for i in 0..=n {
                items.push(TD::image(k, i, kids.clone()));
            }
        }
    }
    for k in VEC_KINDS.iter().chain(SET_KINDS.iter()) {
        for n in [8usize, 16, 17, 40] {
            items.push(TD::comp(*k, (0..n).map(|i| TD::word(&format!("c{}", i))).collect()));
        }
    }
    for t in items {
        idx += 1;
        if ctx.mine(idx) {
            check(ctx, &t, "universe1");
        }
    }
    let names = common_safe_names();
    let g = Gen { names: &names, max_depth: 7, max_arity: 6, placeholders: true, set_bias: false };
    let mut rng = ctx.rng(0xC14);
    // lexical terms in the three vocabularies
    let m = ctx.share(400_000, 6_000_000);
    for i in 0..m {
        if ctx.out_of_time() {
            break;
        }
        let f = ALL_FMT[(i % 3) as usize];
        let lg = lexgen::LexGen::new(f, true);
        let depth = 1 + rng.below(5);
        let x = lg.term(&mut rng, depth);
        ctx.report.eval();
        ctx.report.bump(&format!("lexical.{}", f.name()));
        if !matches!(x, LexTerm::Atom { .. }) {
            ctx.report.nontrivial(&format!("lex|{}|{}", f.name(), lexgen::lex_term_canon(&x)));
        }
        if let Some(w) = lex_failure(f, &x) {
            ctx.report.violate(
                format!("C14|lexical|{}|{}", f.name(), w),
                format!("{} for lexical term {}", w, lexgen::lex_term_canon(&x)),
                J::obj().set("model", "lexical").set("format", f.name()).set("term", lexgen::lex_term_json(&x)).set("why", w.clone()),
            );
        }
    }
    // hostile lexical terms: any public-constructor value, with connecter / copula / prefix / bracket
    // strings that are *not* the stock ones (keywords of another role or another format, keyword +
    // name, name + keyword, empty, plain names).  Most do not fold; whenever the fold answers Ok the
    // category must still agree, and extraction / category never depend on the strings.
    let hostile = ctx.share(150_000, 3_000_000);
    let mut pools: Vec<Vec<String>> = vec![];
    for f in ALL_FMT {
        let v = lexgen::Vocab::of(f);
        let mut base: Vec<String> = vec![];
        base.extend(v.prefixes.iter().cloned());
        base.extend(v.connecters.iter().cloned());
        base.extend(v.copulas.iter().cloned());
        for (l, r) in &v.set_brackets {
            base.push(l.clone());
            base.push(r.clone());
        }
        base.extend(v.punctuations.iter().cloned());
        let mut pool = base.clone();
        for b in &base {
            for n in ["op", "go-to", "x", "1", "_"] {
                pool.push(format!("{}{}", b, n));
                pool.push(format!("{}{}", n, b));
            }
        }
        for a in &v.prefixes {
            for b in v.connecters.iter().chain(v.copulas.iter()) {
                pool.push(format!("{}{}", a, b));
                pool.push(format!("{}{}", b, a));
            }
        }
        pool.extend(["", " ", "op", "word", "0", "-", "--", "&", "|"].iter().map(|s| s.to_string()));
        pool.sort();
        pool.dedup();
        pools.push(pool);
    }
    let all_pool: Vec<String> = pools.iter().flatten().cloned().collect();
    for i in 0..hostile {
        if ctx.out_of_time() {
            break;
        }
        let fi = (i % 3) as usize;
        let f = ALL_FMT[fi];
        let lg = lexgen::LexGen::new(f, true);
        // strings mostly from the folder's own format, sometimes from any format
        let pick = |rng: &mut crate::rng::Rng| -> String { if rng.chance(1, 5) { rng.pick(&all_pool).clone() } else { rng.pick(&pools[fi]).clone() } };
        let n = rng.below(5);
        let mut kids: Vec<LexTerm> = (0..n)
            .map(|_| {
                let d__ = rng.below(3);
                lg.term(&mut rng, d__)
            })
            .collect();
        let x = match rng.below(4) {
            0 => LexTerm::new_atom(pick(&mut rng), if rng.chance(1, 2) { pick(&mut rng) } else { rng.pick(&lg.names).clone() }),
            1 => LexTerm::new_compound(pick(&mut rng), kids),
            2 => LexTerm::new_set(pick(&mut rng), kids, pick(&mut rng)),
            _ => {
                while kids.len() < 2 {
                    kids.push(lg.atom(&mut rng, false));
                }
                let b = kids.pop().unwrap();
                let a = kids.pop().unwrap();
                LexTerm::new_statement(pick(&mut rng), a, b)
            }
        };
        ctx.report.eval();
        ctx.report.bump(&format!("lexical-hostile.{}", f.name()));
        ctx.report.nontrivial(&format!("lexh|{}|{}", f.name(), lexgen::lex_term_canon(&x)));
        if matches!(observe(|| x.clone().try_fold_into(f.e()).map(|t: Term| t)), Obs::Ret(Ok(_))) {
            ctx.report.bump("lexical-hostile.fold-ok");
        }
        if let Some(w) = lex_failure(f, &x) {
            ctx.report.violate(
                format!("C14|lexical-hostile|{}|{}", f.name(), w),
                format!("{} for lexical term {}", w, lexgen::lex_term_canon(&x)),
                J::obj().set("model", "lexical").set("format", f.name()).set("term", lexgen::lex_term_json(&x)).set("why", w.clone()),
            );
        }
    }
    // random enum terms (the largest family, last: a run cut by the time budget has then done the others)
    let n = ctx.share(1_000_000, 15_000_000);
    for i in 0..n {
        if ctx.out_of_time() {
            ctx.report.inconclusive.push(format!("random workload cut at {} of {}", i, n));
            break;
        }
        let depth = 2 + rng.below(5);
        let t = g.term_x(&mut rng, depth);
        check(ctx, &t, "random");
    }
    ctx.report.note(
        "rule",
        "a case = one enum term (all accessors, category and capacity predicates) or one lexical term (extraction, category, category of its fold); non-trivial = not a bare atom; distinct by canonical form",
    );
}

pub fn replay(ctx: &mut Ctx, d: &J) -> Option<()> {
    if jstr(d, "model")? == "enum" {
        let td = TD::from_json(d.get("term")?)?;
        if let Some(w) = term_failure(&td) {
            ctx.report.violate(format!("C14|enum|{}", td.canon()), w, d.clone());
        }
    }
    if jstr(d, "model")? == "lexical" {
        let f = fmt_of(d)?;
        let x = lexgen::lex_term_from_json(d.get("term")?)?;
        if let Some(w) = lex_failure(f, &x) {
            ctx.report.violate(format!("C14|lexical|{}|{}", f.name(), w), w, d.clone());
        }
    }
    Some(())
}
