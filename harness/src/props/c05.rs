//! C05 — the lexical parser and lexical folding are total.

use super::c04::hostile_workload;
use super::common::*;
use crate::guard::{observe, panic_site, Obs};
use crate::json::J;
use crate::lexgen::{self, Vocab};
use crate::names::*;
use crate::rng::Rng;
use crate::strings::*;
use crate::Ctx;
use narsese::conversion::inter_type::lexical_fold::TryFoldInto;
use narsese::enum_narsese::{Budget as EBudget, Narsese as ENarsese, Sentence as ESentence, Task as ETask, Term as ETerm, Truth as ETruth};
use narsese::lexical::{Narsese as LexNarsese, Sentence as LexSentence, Task as LexTask, Term as LexTerm};

/// create a format of vocabulary `g` in the per-thread slot and use it on a set and a compound
pub fn warm_slot(g: Fmt) {
    let v = Vocab::of(g);
    let a = LexTerm::new_atom("", "A");
    let t = LexTerm::new_statement(
        v.copulas[0].clone(),
        LexTerm::new_set(v.set_brackets[0].0.clone(), vec![a.clone(), a.clone()], v.set_brackets[0].1.clone()),
        LexTerm::new_compound(v.connecters[0].clone(), vec![a.clone(), a.clone()]),
    );
    let _ = observe(|| {
        with_recreated_lex(g, |l| {
            let s = l.format_term(&t);
            let _ = l.parse(&s);
            let _ = l.parse_term(&s);
        })
    });
}

/// entries: `parse`, `parse_term` on the static instance; `parse@recreated`, `parse_term@recreated`
/// on a format created a moment ago by the public factory in the per-thread slot (where a format of
/// another vocabulary usually lived just before)
pub fn lex_call(f: Fmt, entry: &str, s: &str) -> Result<&'static str, String> {
    if let Some(base) = entry.strip_suffix("@recreated") {
        return with_recreated_lex(f, |l| lex_call_in(l, base, s));
    }
    lex_call_in(f.l(), entry, s)
}

fn lex_call_in(l: &narsese::conversion::string::impl_lexical::NarseseFormat, entry: &str, s: &str) -> Result<&'static str, String> {
    let r = observe(|| -> &'static str {
        match entry {
            "parse" => match l.parse(s) {
                Ok(_) => "ok",
                Err(e) => {
                    let _ = e.to_string();
                    let _ = format!("{:?}", e);
                    "err"
                }
            },
            _ => match l.parse_term(s) {
                Ok(_) => "ok",
                Err(e) => {
                    let _ = e.to_string();
                    "err"
                }
            },
        }
    });
    match r {
        Obs::Ret(x) => Ok(x),
        Obs::Panic(p) => Err(p),
    }
}

#[cfg(feature = "hooks")]
fn hook_check(ctx: &mut Ctx, n_chars: usize) -> Option<String> {
    use narsese::verif_hooks::{drain, Event};
    let (events, dropped) = drain();
    if dropped > 0 {
        return Some(format!("more than 2^20 lexical parser events for an input of {} chars", n_chars));
    }
    let mut seg = 0u64;
    let mut defect = None;
    for ev in &events {
        match ev {
            Event::LexItems { len, begin, right, mask } => {
                ctx.report.bump(&format!("hook.items_mask.{:05b}", mask));
                if !(begin <= len && right <= len) {
                    defect = Some(format!("item borders outside the input: begin {} right {} len {}", begin, right, len));
                }
                if begin > right {
                    // the slice taken right after this event would panic; the panic itself is the violation,
                    // this records the state that leads to it
                    ctx.report.bump("hook.items.begin>right");
                }
            }
            Event::LexSegmentTerm { .. } => seg += 1,
            _ => {}
        }
    }
    ctx.report.bump_by("hook.events", events.len() as u64);
    ctx.report.hist_max("max.hook.segment_term_activations", seg);
    if n_chars > 0 {
        ctx.report.hist_max("max.hook.segment_term_per_char_x100", seg * 100 / n_chars as u64);
    }
    defect
}

fn shrink_string(s: &str, fails: &mut dyn FnMut(&str) -> bool) -> String {
    let mut cur: Vec<char> = s.chars().collect();
    let mut chunk = (cur.len() / 2).max(1);
    let mut budget = 600;
    while budget > 0 {
        let mut i = 0;
        let mut progressed = false;
        while i < cur.len() && budget > 0 {
            let j = (i + chunk).min(cur.len());
            let cand: String = cur[..i].iter().chain(cur[j..].iter()).collect();
            budget -= 1;
            if fails(&cand) {
                cur = cand.chars().collect();
                progressed = true;
            } else {
                i += chunk;
            }
        }
        if !progressed {
            if chunk == 1 {
                break;
            }
            chunk /= 2;
        }
    }
    cur.into_iter().collect()
}

pub fn probe_string(ctx: &mut Ctx, f: Fmt, s: &str, family: &str) {
    if ctx.report.evaluations % 400 == 0 {
        something_fails_first((ctx.report.evaluations / 400) as usize);
    }
    ctx.journal.about_to(&format!("C05|{}", f.name()), s);
    ctx.report.eval();
    ctx.report.bump(&format!("family.{}", family));
    ctx.report.bump(&format!("format.{}", f.name()));
    if family != "wellformed" {
        ctx.report.nontrivial(&format!("{}|{}", f.name(), s));
    }
    let n_chars = s.chars().count();
    // one string in six (and every replay) also goes through a re-created format; a replay first
    // puts the two other vocabularies into the slot, one after the other
    let recreated = family == "replay" || ctx.report.evaluations % 6 == 0;
    // (the strings of one format come in long runs: another vocabulary is put into the slot first - one
    // of the two others in the workload, each of them in turn in a replay)
    let others: Vec<Fmt> = ALL_FMT.iter().copied().filter(|g| *g != f).collect();
    let mut entries: Vec<(&str, Option<Fmt>)> = vec![("parse", None), ("parse_term", None)];
    if family == "replay" {
        for g in &others {
            entries.push(("parse@recreated", Some(*g)));
            entries.push(("parse_term@recreated", Some(*g)));
        }
    } else if recreated {
        let g = others[(n_chars + ctx.report.evaluations as usize / 6) % 2];
        entries.push(("parse@recreated", Some(g)));
        entries.push(("parse_term@recreated", Some(g)));
    }
    for (entry, warm) in entries.iter().copied() {
        if let Some(g) = warm {
            warm_slot(g);
        }
        #[cfg(feature = "hooks")]
        narsese::verif_hooks::enable(true);
        let t0 = std::time::Instant::now();
        let r = lex_call(f, entry, s);
        let us = t0.elapsed().as_micros() as u64;
        #[cfg(feature = "hooks")]
        {
            narsese::verif_hooks::enable(false);
            if let Some(d) = hook_check(ctx, n_chars) {
                ctx.report.violate(
                    format!("C05|hook|{}|{}", f.name(), d.split(':').next().unwrap_or("")),
                    format!("[{}] {} on input {:?}", f.name(), d, s),
                    J::obj().set("kind", "string").set("format", f.name()).set("entry", entry).set("input", s).set("why", d.clone()),
                );
            }
        }
        ctx.report.hist_max("max.call_us", us);
        if us > 5_000_000 {
            ctx.report.inconclusive.push(format!("a lexical `{}` [{}] took {} ms on {:?}", entry, f.name(), us / 1000, s));
        }
        match r {
            Ok(o) => ctx.report.bump(&format!("outcome.{}.{}", entry, o)),
            Err(p) => {
                let site = panic_site(&p);
                let small = shrink_string(s, &mut |c| matches!(lex_call(f, entry, c), Err(pp) if panic_site(&pp) == site));
                ctx.report.violate(
                    format!("C05|panic|{}|{}|{}", f.name(), entry, site),
                    format!("[{}] lexical `{}` panicked on {:?}: {}", f.name(), entry, small, p),
                    J::obj().set("kind", "string").set("format", f.name()).set("entry", entry).set("input", small.clone()).set("original", s).set("panic", p),
                );
            }
        }
    }
    let _ = n_chars;
    ctx.journal.done();
}

// ---------------------------------------------------------------------------------------------
// arbitrary lexical values for fold

pub struct HostileLex {
    pub strings: Vec<String>,
    pub numbers: Vec<String>,
    pub vocabs: Vec<Vocab>,
}

impl HostileLex {
    pub fn new() -> HostileLex {
        let mut strings: Vec<String> = vec![];
        for f in ALL_FMT {
            for k in keywords(f.e()) {
                strings.push(k.to_string());
            }
        }
        for s in ["", " ", "x", "A", "_", "__", "-", "--", "0", "7", "+7", "-7", "1e3", "18446744073709551615", "18446744073709551616", "٧", "名", "😀", "\u{0}", "\n", "a b", "NaN"] {
            strings.push(s.to_string());
        }
        strings.sort();
        strings.dedup();
        let numbers: Vec<String> = [
            "0", "1", "0.5", "1.0", "0.9", "NaN", "nan", "-NaN", "inf", "-inf", "+inf", "infinity", "-0", "-0.0", "1e999", "1e-999", "+.5", ".5", "5.", "1.5", "-0.1", "2",
            "1.0000000000000002", "0.99999999999999999999999", "1234567890123456789012345678901234567890", "", " ", "0x1", "1_0", "１", "0.5 ", " 0.5", "1e0", "1E0", "١",
            "0.1e1", "10e-1", "1e-1", "+1", "+0", "-1e-400",
        ]
        .iter()
        .map(|s| s.to_string())
        .collect();
        HostileLex { strings, numbers, vocabs: ALL_FMT.iter().map(|f| Vocab::of(*f)).collect() }
    }

    fn s(&self, rng: &mut Rng) -> String {
        match rng.below(10) {
            0 => random_unicode(rng),
            1 => rng.pick(&self.numbers).clone(),
            _ => rng.pick(&self.strings).clone(),
        }
    }

    /// a field that is *usually* valid for vocabulary `v` (so that deeper parts of fold are reached)
    fn mostly<'a>(&self, rng: &mut Rng, valid: &'a [String]) -> String {
        if !valid.is_empty() && rng.chance(3, 4) {
            rng.pick(valid).clone()
        } else {
            self.s(rng)
        }
    }

    pub fn term(&self, rng: &mut Rng, depth: usize, v: usize) -> LexTerm {
        let vocab = &self.vocabs[v];
        if depth <= 1 || rng.chance(1, 4) {
            let prefix = self.mostly(rng, &vocab.prefixes);
            let name = match rng.below(4) {
                0 => rng.pick(&self.numbers).clone(),
                1 => String::new(),
                _ => self.s(rng),
            };
            return LexTerm::new_atom(prefix, name);
        }
        match rng.below(10) {
            0..=4 => {
                let c = self.mostly(rng, &vocab.connecters);
                let n = rng.below(7);
                let mut terms: Vec<LexTerm> = (0..n).map(|_| self.term(rng, depth - 1, v)).collect();
                // placeholders at random positions (none, one, several, only)
                let ph = LexTerm::new_atom(ALL_FMT[v].e().atom.prefix_placeholder, if rng.chance(1, 3) { "x" } else { "" });
                match rng.below(5) {
                    0 => {}
                    1 => {
                        let pos = rng.below(terms.len() + 1);
                        terms.insert(pos, ph);
                    }
                    2 => {
                        for _ in 0..rng.range(2, 3) {
                            let pos = rng.below(terms.len() + 1);
                            terms.insert(pos, ph.clone());
                        }
                    }
                    3 => terms = vec![ph],
                    _ => terms.push(ph),
                }
                LexTerm::new_compound(c, terms)
            }
            5..=6 => {
                let (l, r) = if rng.chance(3, 4) && !vocab.set_brackets.is_empty() {
                    let p = rng.pick(&vocab.set_brackets).clone();
                    if rng.chance(1, 6) {
                        (p.0, self.s(rng))
                    } else {
                        p
                    }
                } else {
                    (self.s(rng), self.s(rng))
                };
                let n = rng.below(6);
                LexTerm::new_set(l, (0..n).map(|_| self.term(rng, depth - 1, v)).collect(), r)
            }
            _ => {
                let c = self.mostly(rng, &vocab.copulas);
                LexTerm::new_statement(c, self.term(rng, depth - 1, v), self.term(rng, depth - 1, v))
            }
        }
    }

    pub fn floats(&self, rng: &mut Rng, max: usize) -> Vec<String> {
        (0..rng.below(max + 1)).map(|_| if rng.chance(1, 8) { self.s(rng) } else { rng.pick(&self.numbers).clone() }).collect()
    }

    pub fn stamp(&self, rng: &mut Rng, v: usize) -> String {
        let e = ALL_FMT[v].e();
        let fixed = |body: &str| format!("{}{}{}{}", e.sentence.stamp_brackets.0, e.sentence.stamp_fixed, body, e.sentence.stamp_brackets.1);
        match rng.below(12) {
            0 => String::new(),
            1 => e.sentence.stamp_brackets.0.to_string(),
            2 => format!("{}{}", e.sentence.stamp_brackets.0, e.sentence.stamp_fixed),
            3 => fixed("99999999999999999999"),
            4 => fixed("-9223372036854775808"),
            5 => fixed("+-5"),
            6 => fixed(" 5 "),
            7 => fixed(""),
            8 => format!("{}{}{}", e.sentence.stamp_brackets.0, e.sentence.stamp_present, e.sentence.stamp_brackets.1),
            9 => format!("{}{}", e.sentence.stamp_brackets.0, e.sentence.stamp_past),
            10 => fixed("5"),
            _ => self.s(rng),
        }
    }

    pub fn punct(&self, rng: &mut Rng, v: usize) -> String {
        let vocab = &self.vocabs[v];
        match rng.below(8) {
            0 => String::new(),
            1 => "..".to_string(),
            2 => self.s(rng),
            _ => rng.pick(&vocab.punctuations).clone(),
        }
    }

    pub fn sentence(&self, rng: &mut Rng, depth: usize, v: usize) -> LexSentence {
        LexSentence::new(self.term(rng, depth, v), self.punct(rng, v), self.stamp(rng, v), self.floats(rng, 4))
    }
}

pub fn fold_probe(ctx: &mut Ctx, x: &LexNarsese, folder: Fmt, family: &str) -> Option<Result<ENarsese, String>> {
    ctx.report.eval();
    ctx.report.bump(&format!("family.{}", family));
    ctx.report.bump(&format!("folder.{}", folder.name()));
    let canon = lexgen::lex_canon(x);
    ctx.journal.about_to(&format!("C05-fold|{}", folder.name()), &canon);
    ctx.report.nontrivial(&format!("fold|{}|{}", folder.name(), canon));
    let r = observe(|| x.clone().try_fold_into(folder.e()).map_err(|e| format!("{:?}", e)));
    ctx.journal.done();
    match r {
        Obs::Ret(r) => {
            ctx.report.bump(if r.is_ok() { "outcome.fold.ok" } else { "outcome.fold.err" });
            Some(r)
        }
        Obs::Panic(p) => {
            ctx.report.violate(
                format!("C05|fold-panic|{}", panic_site(&p)),
                format!("folding {} with the {} format panicked: {}", canon, folder.name(), p),
                J::obj().set("kind", "fold").set("folder", folder.name()).set("value", canon.clone()).set("lexical", lexgen::lex_json(x)).set("panic", p),
            );
            None
        }
    }
}

/// fold the parts separately as well (Term, Sentence, Task, Truth, Budget entry points)
fn fold_parts(ctx: &mut Ctx, h: &HostileLex, rng: &mut Rng, folder: Fmt, v: usize) {
    let depth = 1 + rng.below(4);
    let t = h.term(rng, depth, v);
    let truth = h.floats(rng, 4);
    let budget = h.floats(rng, 5);
    let s = h.sentence(rng, depth, v);
    let task = LexTask { budget: budget.clone(), sentence: s.clone() };
    let r = observe(|| {
        let a: Result<ETerm, _> = t.clone().try_fold_into(folder.e());
        let b: Result<ETruth, _> = truth.clone().try_fold_into(folder.e());
        let c: Result<EBudget, _> = budget.clone().try_fold_into(folder.e());
        let d: Result<ESentence, _> = s.clone().try_fold_into(folder.e());
        let e: Result<ETask, _> = task.clone().try_fold_into(folder.e());
        (a.is_ok(), b.is_ok(), c.is_ok(), d.is_ok(), e.is_ok())
    });
    ctx.report.eval();
    ctx.report.bump("family.fold-parts");
    match r {
        Obs::Ret((a, b, c, d, e)) => {
            for (n, ok) in [("term", a), ("truth", b), ("budget", c), ("sentence", d), ("task", e)] {
                ctx.report.bump(&format!("outcome.fold-{}.{}", n, if ok { "ok" } else { "err" }));
            }
        }
        Obs::Panic(p) => ctx.report.violate(
            format!("C05|fold-panic|{}", panic_site(&p)),
            format!("folding a part with the {} format panicked: {} (term {}, truth {:?}, budget {:?})", folder.name(), p, lexgen::lex_term_canon(&t), truth, budget),
            J::obj()
                .set("kind", "fold-parts")
                .set("folder", folder.name())
                .set("term", lexgen::lex_term_canon(&t))
                .set("truth", J::Arr(truth.iter().map(J::from).collect()))
                .set("budget", J::Arr(budget.iter().map(J::from).collect()))
                .set("panic", p),
        ),
    }
}

pub fn deep_lex(v: &Vocab, depth: usize, kind: usize) -> LexTerm {
    let mut t = LexTerm::new_atom("", "A");
    for i in 0..depth {
        t = match (kind + i) % 3 {
            0 => LexTerm::new_compound(v.connecters[i % v.connecters.len()].clone(), vec![t]),
            1 => {
                let (l, r) = v.set_brackets[i % v.set_brackets.len()].clone();
                LexTerm::new_set(l, vec![t], r)
            }
            _ => LexTerm::new_statement(v.copulas[i % v.copulas.len()].clone(), t, LexTerm::new_atom("", "B")),
        };
    }
    t
}

pub fn run(ctx: &mut Ctx) {
    // strings through the lexical parser
    let mut sink = |ctx: &mut Ctx, f: Fmt, s: &str, family: &'static str| probe_string(ctx, f, s, family);
    hostile_workload(ctx, 0xC05, 800_000, 16_000_000, &mut sink);
    // many threads inside the lexical entry points at the same time (the static formats are shared by all
    // threads of a process): no call may panic, and the parser must still work afterwards
    if ctx.shard < 4 {
        for f in ALL_FMT {
            let g = StrGen::new(f);
            let mut rng = ctx.rng(0xC05C);
            let mut texts: Vec<String> = (0..24).map(|_| g.wellformed(&mut rng, 3)).collect();
            texts.extend(["", "(", "{A,", "<A --> B>", "A", "(*, A, B)"].iter().map(|s| s.to_string()));
            // (long inputs of many different lengths, cheap to parse: a shared pool of input buffers that is
            // only used above some size has to hand out, take back and drop buffers all the time)
            for i in 0..24usize {
                let base = g.wellformed(&mut rng, 2);
                texts.push(format!("{}{}{}", " ".repeat(40 + 37 * i), base, " ".repeat(17 * (i % 5))));
            }
            let texts = std::sync::Arc::new(texts);
            let rounds = if ctx.thorough { 30 } else { 2 };
            for round in 0..rounds {
                ctx.report.eval();
                ctx.report.bump("family.many-threads-at-once");
                let panics = std::sync::Arc::new(std::sync::atomic::AtomicU64::new(0));
                let first = std::sync::Arc::new(std::sync::Mutex::new(None::<String>));
                // (two threads per core: pre-emption in the middle of a call is what widens the windows)
                let nthreads = 2 * std::thread::available_parallelism().map(|n| n.get()).unwrap_or(4).clamp(4, 32);
                let barrier = std::sync::Arc::new(std::sync::Barrier::new(nthreads));
                let hs: Vec<_> = (0..nthreads)
                    .map(|ti| {
                        let (texts, panics, first, barrier) = (texts.clone(), panics.clone(), first.clone(), barrier.clone());
                        std::thread::spawn(move || {
                            barrier.wait();
                            // a tight phase on tiny inputs (the entry / exit code of a call dominates: the
                            // narrowest windows are hit most often), then the longer texts
                            let tiny = ["A", "", "_", "(*,A)", "A."];
                            // (the tight phase runs under ONE guard per 1000 calls: the guard's own shared
                            // counters would otherwise pace the threads)
                            for chunk in 0..12usize {
                                let r = std::panic::catch_unwind(|| {
                                    for i in 0..1000usize {
                                        let s = tiny[(i + ti + chunk) % tiny.len()];
                                        let _ = f.l().parse_term(s).map_err(|e| e.to_string());
                                        if i % 4 == 0 {
                                            let _ = f.l().parse(s).map_err(|e| e.to_string());
                                        }
                                    }
                                });
                                if r.is_err() {
                                    panics.fetch_add(1, std::sync::atomic::Ordering::Relaxed);
                                    if let Ok(mut g) = first.lock() {
                                        g.get_or_insert_with(|| "parse_term / parse on a tiny input in the tight phase".to_string());
                                    }
                                }
                            }
                            for i in 0..1500usize {
                                let s: &str = &texts[(i * 7 + ti + round) % texts.len()];
                                for entry in ["parse_term", "parse"] {
                                    if let Err(p) = lex_call(f, entry, s) {
                                        panics.fetch_add(1, std::sync::atomic::Ordering::Relaxed);
                                        if let Ok(mut g) = first.lock() {
                                            g.get_or_insert_with(|| format!("{} on {:?}: {}", entry, s, p));
                                        }
                                    }
                                }
                            }
                        })
                    })
                    .collect();
                for h in hs {
                    let _ = h.join();
                }
                let n = panics.load(std::sync::atomic::Ordering::Relaxed);
                let after = lex_call(f, "parse_term", "A").is_err() || lex_call(f, "parse", "A.").is_err();
                if n > 0 || after {
                    let w = first.lock().ok().and_then(|g| g.clone()).unwrap_or_default();
                    ctx.report.violate(
                        format!("C05|concurrent|{}", f.name()),
                        format!("[{}] {} lexical call(s) panicked while many threads (2 per core) were parsing at the same time (first: {}){}", f.name(), n, w, if after { "; the parser still panics afterwards on a single thread" } else { "" }),
                        J::obj().set("kind", "concurrent").set("format", f.name()),
                    );
                    break;
                }
            }
        }
    }
    // every string of up to 3 characters over a small alphabet of the format's own identifier-like
    // keyword characters, letters, digits and brackets (Han: copula / prefix / bracket characters are
    // identifier characters), through both entry points
    {
        let mut idx = 0usize;
        for f in ALL_FMT {
            let e = f.e();
            let mut alphabet: Vec<char> = vec!['a', 'Z', '1', '-', '_', ' ', '\n'];
            for kw in keywords(e) {
                for c in kw.chars().take(2) {
                    if !alphabet.contains(&c) && alphabet.len() < 40 {
                        alphabet.push(c);
                    }
                }
            }
            let n = alphabet.len();
            for len in 1..=3usize {
                for code in 0..n.pow(len as u32) {
                    idx += 1;
                    if !ctx.mine(idx) {
                        continue;
                    }
                    let mut c = code;
                    let s: String = (0..len)
                        .map(|_| {
                            let ch = alphabet[c % n];
                            c /= n;
                            ch
                        })
                        .collect();
                    probe_string(ctx, f, &s, "all-short-strings-over-keyword-characters");
                }
            }
        }
    }
    // arbitrary lexical values through fold
    let h = HostileLex::new();
    let mut rng = ctx.rng(0xC05F);
    let n = ctx.share(800_000, 16_000_000);
    for i in 0..n {
        if ctx.out_of_time() {
            ctx.report.inconclusive.push(format!("fold workload cut at {} of {}", i, n));
            break;
        }
        let v = rng.below(3);
        // matching and mismatching (value vocabulary, folder) pairs
        let folder = if rng.chance(3, 4) { ALL_FMT[v] } else { ALL_FMT[rng.below(3)] };
        let depth = if i % 500 == 0 { 64 } else { 1 + rng.below(5) };
        let x = match rng.below(3) {
            0 => LexNarsese::Term(h.term(&mut rng, depth.min(8), v)),
            1 => LexNarsese::Sentence(h.sentence(&mut rng, depth.min(8), v)),
            _ => LexNarsese::Task(LexTask { budget: h.floats(&mut rng, 5), sentence: h.sentence(&mut rng, depth.min(8), v) }),
        };
        if i % 64 == 0 {
            let xx = x.clone();
            ctx.report.sample(|| J::obj().set("folder", folder.name()).set("lexical_value", lexgen::lex_canon(&xx)));
        }
        fold_probe(ctx, &x, folder, "hostile-lexical-values");
        if depth == 64 {
            let t = deep_lex(&h.vocabs[v], 64, i as usize);
            fold_probe(ctx, &LexNarsese::Term(t), folder, "deep-64");
        }
        if i % 4 == 0 {
            fold_parts(ctx, &h, &mut rng, folder, v);
        }
    }
    // extreme arities and depths through fold: 255..1000 components (valid and not), chains 300 deep
    {
        let mut idx = 0usize;
        for (vi, f) in ALL_FMT.iter().enumerate() {
            let v = &h.vocabs[vi];
            for n in [255usize, 256, 257, 300, 1000] {
                for (ci, c) in v.connecters.iter().enumerate().filter(|(ci, _)| n < 1000 || ci % 4 == 0) {
                    idx += 1;
                    if !ctx.mine(idx) {
                        continue;
                    }
                    let _ = ci;
                    let good: Vec<LexTerm> = (0..n).map(|i| LexTerm::new_atom("", format!("w{}", i))).collect();
                    let bad: Vec<LexTerm> = (0..n).map(|i| LexTerm::new_atom(if i % 2 == 0 { "#" } else { "" }, if i % 3 == 0 { String::new() } else { format!("w{}", i) })).collect();
                    for (kids, what) in [(good, "valid"), (bad, "invalid")] {
                        let x = LexNarsese::Term(LexTerm::new_compound(c.clone(), kids.clone()));
                        fold_probe(ctx, &x, *f, "extreme-arity");
                        let (l, r) = v.set_brackets[n % v.set_brackets.len()].clone();
                        fold_probe(ctx, &LexNarsese::Term(LexTerm::new_set(l, kids, r)), *f, "extreme-arity");
                        let _ = what;
                    }
                }
            }
        }
    }
    ctx.report.note(
        "rule",
        "a case = one bounded string through lexical parse and parse_term, or one arbitrary lexical value folded with one enum format; non-trivial = not a plain formatter output / any hostile lexical value; distinct = distinct (format, string) or (folder, structural rendering)",
    );
}

pub fn replay(ctx: &mut Ctx, d: &J) -> Option<()> {
    if d.get("journal").is_some() {
        let label = jstr(d, "label")?;
        let input = jstr(d, "input")?;
        let mut parts = label.split('|');
        let kind = parts.next()?;
        let f = Fmt::from_name(parts.next()?)?;
        let _ = kind; // "C05" or "SANIT" (engine artifacts): the input goes through the same probe
        probe_string(ctx, f, &input, "replay");
        if let Err(p) = super::sanit::exercise(f, &input) {
            ctx.report.violate("C05|exercise-panic".into(), format!("panic while exercising {:?}: {}", input, p), d.clone());
        }
        return Some(());
    }
    if jstr(d, "kind")? == "concurrent" {
        // (a schedule cannot be replayed in isolation: the whole check is run again in this process)
        super::rerun_fixed(ctx);
        return Some(());
    }
    if jstr(d, "kind")? == "fold" {
        let folder = Fmt::from_name(&jstr(d, "folder")?)?;
        let x = lexgen::lex_from_json(d.get("lexical")?)?;
        fold_probe(ctx, &x, folder, "replay");
        return Some(());
    }
    if jstr(d, "kind")? == "string" {
        let f = fmt_of(d)?;
        probe_string(ctx, f, &jstr(d, "input")?, "replay");
        if let Some(o) = jstr(d, "original") {
            probe_string(ctx, f, &o, "replay");
        }
    }
    Some(())
}
