//! One module per property. `run` dispatches on the property id; `replay` re-executes a witness.

use crate::json::J;
use crate::Ctx;

pub mod common;
pub mod c01;
pub mod c02;
pub mod c03;
pub mod c04;
pub mod c05;
pub mod c06;
pub mod c08;
pub mod c09;
pub mod c10;
pub mod c11;
pub mod c12;
pub mod c13;
pub mod c14;
pub mod c15;
pub mod c16;
pub mod c17;
pub mod sanit;

pub fn run(ctx: &mut Ctx) -> bool {
    match ctx.id.as_str() {
        "C01" => c01::run(ctx),
        "C02" => c02::run(ctx),
        "C03" => c03::run(ctx),
        "C04" => c04::run(ctx),
        "C05" => c05::run(ctx),
        "C06" => c06::run(ctx, false),
        "C07" => c06::run(ctx, true),
        "C08" => c08::run(ctx),
        "C09" => c09::run(ctx),
        "C10" => c10::run(ctx),
        "C11" => c11::run(ctx),
        "C12" => c12::run(ctx),
        "C13" => c13::run(ctx),
        "C14" => c14::run(ctx),
        "C15" => c15::run(ctx),
        "C16" => c16::run(ctx),
        "C17" => c17::run(ctx),
        "SANIT" => sanit::run(ctx),
        "SANIT-GEN" => sanit::run_gen(ctx),
        _ => return false,
    }
    true
}

/// Replay of a witness that belongs to a fixed family which has no isolated form (one large batch, a
/// schedule of threads, a thread-exit destructor, an extreme-size list): the whole check is run
/// again in this one process - every fixed family in full (one partition = everything), the random
/// part at 1 % - and whatever it reports counts as the reproduction.
pub fn rerun_fixed(ctx: &mut Ctx) {
    ctx.shard = 0;
    ctx.nshards = 1;
    ctx.scale_pct = 1;
    ctx.started = std::time::Instant::now();
    ctx.time_budget = std::time::Duration::from_secs(75);
    let _ = run(ctx);
}

/// Re-run one witness. Some(true) = the violation reproduces.
pub fn replay(ctx: &mut Ctx, j: &J) -> Option<bool> {
    let d = j.get("detail").unwrap_or(j);
    let before = ctx.report.violations.len();
    if d.get("concurrent").is_some() {
        // a many-threads-at-once witness: the fixed families of the check, run again in this process
        rerun_fixed(ctx);
        return Some(ctx.report.violations.len() > before);
    }
    let ok = match ctx.id.as_str() {
        "C01" => c01::replay(ctx, d),
        "C02" => c02::replay(ctx, d),
        "C03" => c03::replay(ctx, d),
        "C04" => c04::replay(ctx, d),
        "C05" => c05::replay(ctx, d),
        "C06" => c06::replay(ctx, d, false),
        "C07" => c06::replay(ctx, d, true),
        "C08" => c08::replay(ctx, d),
        "C09" => c09::replay(ctx, d),
        "C10" => c10::replay(ctx, d),
        "C11" => c11::replay(ctx, d),
        "C12" => c12::replay(ctx, d),
        "C13" => c13::replay(ctx, d),
        "C14" => c14::replay(ctx, d),
        "C15" => c15::replay(ctx, d),
        "C16" => c16::replay(ctx, d),
        "C17" => c17::replay(ctx, d),
        _ => None,
    };
    ok?;
    Some(ctx.report.violations.len() > before)
}
