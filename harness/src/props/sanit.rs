//! Small, targeted workloads meant to run under an undefined-behaviour / memory-error oracle
//! (Miri, valgrind memcheck). They concentrate on the code that native monitors cannot judge:
//! the `unwrap_unchecked` sites of `parse_compound` (arity edges of negation / differences /
//! statements-as-compounds), slicing in both parsers, fold, hashing and formatting of the results.
//! The oracle is the engine itself (a UB / invalid-access report aborts the process); panics are
//! still captured and reported as for C04/C05.

use super::common::*;
use crate::guard::{observe, Obs};
use crate::json::J;
use crate::names::*;
use crate::rng::Rng;
use crate::strings::*;
use crate::Ctx;
use narsese::conversion::inter_type::lexical_fold::TryFoldInto;
use narsese::conversion::string::typst_formatter::FormatterTypst;
use narsese::enum_narsese::{Budget, Narsese, Punctuation, Stamp, Truth};
use std::collections::HashSet;

/// arity-edge inputs for every compound connecter and both set brackets of a format
pub fn arity_edge_inputs(f: Fmt) -> Vec<String> {
    let e = f.e();
    let (l, r) = e.compound.brackets;
    let sep = e.compound.separator;
    let conns = [
        e.compound.connecter_negation,
        e.compound.connecter_difference_extension,
        e.compound.connecter_difference_intension,
        e.compound.connecter_image_extension,
        e.compound.connecter_image_intension,
        e.compound.connecter_product,
        e.compound.connecter_conjunction,
        e.compound.connecter_intersection_extension,
        e.compound.connecter_conjunction_sequential,
    ];
    let ph = e.atom.prefix_placeholder;
    let mut out = vec![];
    for c in conns {
        for n in 0..=4usize {
            let mut items: Vec<String> = (0..n).map(|i| ["A", "B", "C", "D"][i].to_string()).collect();
            for variant in 0..4 {
                let mut its = items.clone();
                match variant {
                    1 => its.insert(0, ph.to_string()),
                    2 => its.push(ph.to_string()),
                    3 => {
                        its.insert(0, ph.to_string());
                        its.push(ph.to_string());
                    }
                    _ => {}
                }
                let mut s = format!("{}{}", l, c);
                for it in &its {
                    s.push_str(sep);
                    s.push(' ');
                    s.push_str(it);
                }
                out.push(format!("{}{}", s, r));
                out.push(s.clone()); // unterminated
                out.push(format!("{}{}", s, sep)); // trailing separator
            }
            items.clear();
        }
    }
    for (sl, sr) in [e.compound.brackets_set_extension, e.compound.brackets_set_intension] {
        out.push(format!("{}{}", sl, sr));
        out.push(format!("{}A{}", sl, sr));
        out.push(format!("{}A{} B{}", sl, sep, sr));
        out.push(format!("{}A{}", sl, sep));
        out.push(sl.to_string());
    }
    let (stl, str_) = e.statement.brackets;
    for cop in e.copulas() {
        out.push(format!("{}A {} B{}", stl, cop, str_));
        out.push(format!("{}A {} {}", stl, cop, str_));
        out.push(format!("{}{} B{}", stl, cop, str_));
        out.push(format!("{}A {}", stl, cop));
    }
    out
}

/// everything the library does with one string, end to end
pub fn exercise(f: Fmt, s: &str) -> Result<(), String> {
    let r = observe(|| {
        let e = f.e();
        let mut set = HashSet::new();
        if let Ok(v) = e.parse::<Narsese>(s) {
            for g in ALL_FMT {
                let text = g.e().format_narsese(&v);
                let _ = g.e().parse::<Narsese>(&text);
            }
            match &v {
                Narsese::Term(t) => {
                    let _ = FormatterTypst.format(t);
                    set.insert(t.clone());
                    let _ = set.contains(t);
                    let _ = t == &t.clone();
                }
                Narsese::Sentence(x) => {
                    let _ = FormatterTypst.format(x);
                }
                Narsese::Task(x) => {
                    let _ = FormatterTypst.format(x);
                }
            }
        }
        let _ = e.parse_chars::<Narsese>(s.chars().collect()).map_err(|e| e.to_string());
        let _ = e.parse::<Truth>(s).map_err(|e| e.to_string());
        let _ = e.parse::<Budget>(s).map_err(|e| e.to_string());
        let _ = e.parse::<Stamp>(s).map_err(|e| e.to_string());
        let _ = e.parse::<Punctuation>(s).map_err(|e| e.to_string());
        let _ = e.parse_multi([s, "A.", s]).len();
        // ... fed lazily (no size hints), and with the input twice in a row
        let mut it = [s, s, "A."].into_iter();
        let _ = e.parse_multi(std::iter::from_fn(move || it.next())).len();
        // the lexical format re-created by its public factory in a reused place
        for g in ALL_FMT {
            let _ = with_recreated_lex(g, |l| {
                let _ = l.parse(s).map(|lx| l.format_narsese(&lx)).map_err(|e| e.to_string());
                let _ = l.parse_term(s).map_err(|e| e.to_string());
            });
        }
        match f.l().parse(s) {
            Ok(lx) => {
                let _ = f.l().format_narsese(&lx);
                let _: Result<Narsese, _> = lx.try_fold_into(e);
            }
            Err(err) => {
                let _ = err.to_string();
            }
        }
        let _ = f.l().parse_term(s).map_err(|e| e.to_string());
    });
    match r {
        Obs::Ret(()) => Ok(()),
        Obs::Panic(p) => Err(p),
    }
}

fn generate_inputs(ctx: &mut Ctx, budget: usize) -> Vec<(Fmt, String)> {
    let mut rng = ctx.rng(0x5A17);
    let mut inputs: Vec<(Fmt, String)> = vec![];
    let mut idx = 0usize;
    for f in ALL_FMT {
        for s in arity_edge_inputs(f) {
            idx += 1;
            if ctx.mine(idx) {
                inputs.push((f, s));
            }
        }
    }
    // a slice of the hostile workload
    let gens: Vec<StrGen> = ALL_FMT.iter().map(|f| StrGen::new(*f)).collect();
    while inputs.len() < budget {
        let g = &gens[rng.below(3)];
        let base = g.wellformed(&mut rng, 3);
        let s = match rng.below(4) {
            0 => base,
            1 => g.mutate(&base, &mut rng),
            2 => {
                let cs: Vec<char> = base.chars().collect();
                let cut = rng.below(cs.len() + 1);
                cs[..cut].iter().collect()
            }
            _ => g.soup(&mut rng),
        };
        inputs.push((g.fmt, s));
    }
    // deterministic thinning so that every family survives the cut
    if inputs.len() > budget {
        let step = inputs.len() as f64 / budget as f64;
        inputs = (0..budget).map(|i| inputs[(i as f64 * step) as usize].clone()).collect();
    }
    inputs
}

/// `SANIT-GEN`: write the inputs of this shard to `<out>/sanit-inputs-<shard>.json` (run natively);
/// `SANIT` with VERIF_SANIT_FILE set: read them back (run under Miri / valgrind, where generating
/// them would cost more than exercising them)
pub fn run_gen(ctx: &mut Ctx) {
    let budget = std::env::var("VERIF_SANIT_INPUTS").ok().and_then(|s| s.parse().ok()).unwrap_or(150usize);
    let inputs = generate_inputs(ctx, budget);
    let arr: Vec<J> = inputs.iter().map(|(f, s)| J::Arr(vec![J::from(f.name()), J::from(s.as_str())])).collect();
    let path = format!("{}/sanit-inputs-{}.json", ctx.out_dir, ctx.shard);
    let _ = std::fs::write(&path, J::Arr(arr).to_string());
    ctx.report.evals(inputs.len() as u64);
    for (f, s) in &inputs {
        ctx.report.nontrivial(&format!("{}|{}", f.name(), s));
    }
}

pub fn run(ctx: &mut Ctx) {
    let budget = std::env::var("VERIF_SANIT_INPUTS").ok().and_then(|s| s.parse().ok()).unwrap_or(150usize);
    let inputs: Vec<(Fmt, String)> = match std::env::var("VERIF_SANIT_FILE") {
        Ok(path) => {
            let text = std::fs::read_to_string(&path).unwrap_or_default();
            let j = crate::json::parse(&text).unwrap_or(J::Arr(vec![]));
            j.as_arr()
                .map(|a| {
                    a.iter()
                        .filter_map(|x| {
                            let p = x.as_arr()?;
                            Some((Fmt::from_name(p.first()?.as_str()?)?, p.get(1)?.as_str()?.to_string()))
                        })
                        .collect()
                })
                .unwrap_or_default()
        }
        Err(_) => generate_inputs(ctx, budget),
    };
    for (f, s) in &inputs {
        ctx.journal.about_to(&format!("SANIT|{}", f.name()), s);
        ctx.report.eval();
        ctx.report.nontrivial(&format!("{}|{}", f.name(), s));
        ctx.report.bump(&format!("format.{}", f.name()));
        if let Err(p) = exercise(*f, s) {
            ctx.report.violate(
                format!("SANIT|panic|{}", crate::guard::panic_site(&p)),
                format!("[{}] panic while exercising {:?}: {}", f.name(), s, p),
                J::obj().set("kind", "panic").set("format", f.name()).set("entry", "narsese").set("input", s.as_str()).set("panic", p),
            );
        }
        ctx.journal.done();
    }
    ctx.report.note("rule", "inputs exercised end to end under the memory/UB oracle");
    let _ = Rng::new(0);
    let _ = jstr;
}
