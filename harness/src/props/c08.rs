//! C08 — parsing depends only on format and input, not on earlier parses.

use super::common::*;
use crate::desc::canon_real_narsese;
use crate::guard::{observe, panic_site, Obs};
use crate::json::J;
use crate::lexgen;
use crate::names::*;
use crate::rng::Rng;
use crate::strings::StrGen;
use crate::Ctx;
use narsese::enum_narsese::Narsese;

/// outcome class of one parse: Ok(canon) / Err / PANIC(site)
fn solo(f: Fmt, s: &str) -> String {
    enum_parse(f, s).class()
}

fn multi(f: Fmt, seq: &[String]) -> Result<Vec<String>, String> {
    let e = f.e();
    let r = observe(|| {
        let mut joined = String::new();
        parse_multi_any(e, seq, &mut joined)
            .into_iter()
            .map(|r| match r {
                Ok(v) => format!("Ok({})", canon_real_narsese(&v)),
                Err(_) => "Err".to_string(),
            })
            .collect::<Vec<String>>()
    });
    match r {
        Obs::Ret(v) => Ok(v),
        Obs::Panic(p) => Err(p),
    }
}

/// the fragment catalogue of a format (name, text)
pub fn fragments(f: Fmt) -> Vec<(&'static str, String)> {
    let e = f.e();
    let j = e.sentence.punctuation_judgement;
    let q = e.sentence.punctuation_question;
    let (cl, cr) = e.compound.brackets;
    let (sl, sr) = e.statement.brackets;
    let (tl, tr) = e.sentence.truth_brackets;
    let (bl, br) = e.task.budget_brackets;
    let (stl, str_) = e.sentence.stamp_brackets;
    let ts = e.sentence.truth_separator;
    let bs = e.task.budget_separator;
    let sep = e.compound.separator;
    let inh = e.statement.copula_inheritance;
    let stmt = format!("{}A {} B{}", sl, inh, sr);
    let comp = format!("{}{}{} A{} B{}", cl, e.compound.connecter_conjunction, sep, sep, cr);
    let truth = format!("{}1{}0.9{}", tl, ts, tr);
    let budget = format!("{}0.5{}0.5{}0.5{}", bl, bs, bs, br);
    let stamp = format!("{}{}{}", stl, e.sentence.stamp_present, str_);
    let fixed = format!("{}{}-5{}", stl, e.sentence.stamp_fixed, str_);
    vec![
        ("term-atom", "A".to_string()),
        ("term-statement", stmt.clone()),
        ("term-compound", comp.clone()),
        ("term-set", format!("{}A{} B{}", e.compound.brackets_set_extension.0, sep, e.compound.brackets_set_extension.1)),
        ("term-ivar", format!("{}x", e.atom.prefix_variable_independent)),
        ("term-ivar-digits", format!("{}1", e.atom.prefix_variable_independent)),
        ("term-qvar", format!("{}x", e.atom.prefix_variable_query)),
        ("term-nonascii", "雪".to_string()),
        ("sentence", format!("{}{}", stmt, j)),
        ("sentence-atom", format!("A{}", j)),
        ("sentence-question", format!("{}{}", stmt, q)),
        ("sentence-stamp", format!("{}{} {}", stmt, j, stamp)),
        ("sentence-fixed", format!("B{} {}", j, fixed)),
        ("sentence-truth", format!("C{} {}", j, truth)),
        ("sentence-full", format!("{}{} {} {}", stmt, j, stamp, truth)),
        ("sentence-nonascii", format!("{}雪 {} 白{}{}", sl, inh, sr, j)),
        ("task", format!("{} {}{}", budget, stmt, j)),
        ("task-full", format!("{} {}{} {} {}", budget, comp, j, fixed, truth)),
        ("task-empty-budget", format!("{}{} A{}", bl, br, j)),
        ("budget-only", budget.clone()),
        ("budget-empty-only", format!("{}{}", bl, br)),
        ("budget-single-only", format!("{}0.9{}", bl, br)),
        ("truth-only", truth.clone()),
        ("truth-single-only", format!("{}0.5{}", tl, tr)),
        ("stamp-only", stamp.clone()),
        ("fixed-stamp-only", fixed.clone()),
        ("punctuation-only", j.to_string()),
        ("term+truth", format!("B {}", truth)),
        ("term+stamp", format!("B {}", stamp)),
        ("budget+term", format!("{} {}", budget, stmt)),
        ("budget+punctuation", format!("{} {}", budget, j)),
        ("truth-first", format!("{} A{}", truth, j)),
        ("unterminated-compound", format!("{}{}{} A", cl, e.compound.connecter_conjunction, sep)),
        ("unterminated-statement", format!("{}A {} ", sl, inh)),
        ("unterminated-truth", format!("A{} {}0.5", j, tl)),
        ("unterminated-budget", format!("{}0.5", bl)),
        ("budget-then-broken-term", format!("{} {}A {} ", budget, sl, inh)),
        ("sentence-then-bad-truth", format!("{}{} {}1{}x{}", stmt, j, tl, ts, tr)),
        ("out-of-range-truth", format!("A{} {}1.5{}", j, tl, tr)),
        ("double-punctuation", format!("A{}{}", j, j)),
        ("garbage", format!("{}{}{}", cr, sr, cr)),
        ("empty", String::new()),
        ("spaces", "  ".to_string()),
        ("unknown-connecter", format!("{}A{} B{}", cl, sep, cr)),
        ("placeholder-with-suffix", format!("{}tail", e.atom.prefix_placeholder)),
        ("image-ending-in-suffixed-placeholder", format!("{}A {} {}{}{} R{} B{} {}x{}{}{}", sl, inh, cl, e.compound.connecter_image_extension, sep, sep, sep, e.atom.prefix_placeholder, cr, sr, j)),
        ("compact-sentence", format!("{}A{}B{}{}", sl, inh, sr, j)),
        // rejected *inside an atom name* (the only atoms whose name can be refused are intervals)
        ("interval-not-a-number", format!("{}1x", e.atom.prefix_interval)),
        ("interval-overflow", format!("{}99999999999999999999999999", e.atom.prefix_interval)),
        ("interval-not-a-number-nested", format!("{}{}{}{} A{} {}1x{} {} B{}{}", sl, cl, e.compound.connecter_conjunction_sequential, sep, sep, e.atom.prefix_interval, cr, e.statement.copula_implication_predictive, sr, j)),
        ("interval", format!("{}5", e.atom.prefix_interval)),
        ("compact-task", format!("{}0.5{}{}A{}B{}{}{}1{}0.9{}", bl, br, sl, inh, sr, j, tl, ts, tr)),
        ("long-budget", format!("{}0.30000000000000004{}  0.7999999999999999{}   0.15000000000000002  {} A{}", bl, bs, bs, br, j)),
    ]
}

const CORE: [&str; 12] = [
    "term-atom",
    "sentence",
    "task",
    "budget-only",
    "truth-only",
    "stamp-only",
    "punctuation-only",
    "term+truth",
    "budget+term",
    "unterminated-statement",
    "budget-then-broken-term",
    "sentence-then-bad-truth",
];

/// compare parse_multi(seq) with solo parses; returns (position, description)
fn seq_failure(f: Fmt, seq: &[String]) -> Option<(usize, String)> {
    match multi(f, seq) {
        Err(p) => Some((usize::MAX, format!("parse_multi panicked: {}", p))),
        Ok(rs) => {
            if rs.len() != seq.len() {
                return Some((usize::MAX, format!("parse_multi returned {} results for {} inputs", rs.len(), seq.len())));
            }
            for (i, s) in seq.iter().enumerate() {
                let alone = solo(f, s);
                if rs[i] != alone {
                    return Some((i, format!("position {} ({:?}): in the batch {} but alone {}", i, s, rs[i], alone)));
                }
            }
            None
        }
    }
}

fn report_seq(ctx: &mut Ctx, f: Fmt, seq: &[String], names: &[String], family: &str, why: String) {
    // shrink: drop inputs while the discrepancy persists
    let mut cur: Vec<String> = seq.to_vec();
    let mut i = 0;
    while i < cur.len() && cur.len() > 1 {
        let mut c = cur.clone();
        c.remove(i);
        if seq_failure(f, &c).is_some() {
            cur = c;
        } else {
            i += 1;
        }
    }
    let why2 = seq_failure(f, &cur).map(|x| x.1).unwrap_or(why);
    ctx.report.violate(
        format!("C08|multi|{}|{:?}", f.name(), cur),
        format!("[{}] {} (batch {:?})", f.name(), why2, cur),
        J::obj()
            .set("kind", "multi")
            .set("format", f.name())
            .set("inputs", J::Arr(cur.iter().map(J::from).collect()))
            .set("fragment_kinds", J::Arr(names.iter().map(J::from).collect()))
            .set("family", family)
            .set("why", why2.clone()),
    );
}

#[cfg(feature = "hooks")]
fn hooked_multi_check(ctx: &mut Ctx, f: Fmt, seq: &[String]) -> Option<String> {
    use narsese::verif_hooks::{drain, enable, Event};
    enable(true);
    let _ = multi(f, seq);
    enable(false);
    let (events, _) = drain();
    let mut starts = 0;
    let mut bad = None;
    for ev in events {
        if let Event::EnumParseStart { slots } = ev {
            starts += 1;
            ctx.report.bump(&format!("hook.slots_at_parse_start.{:05b}", slots));
            if slots != 0 {
                bad = Some(format!("parse #{} of the batch started with filled slots {:05b} (bit0 budget,1 term,2 punctuation,3 stamp,4 truth)", starts, slots));
            }
        }
    }
    ctx.report.bump_by("hook.parse_starts_observed", starts as u64);
    bad
}

fn check_seq(ctx: &mut Ctx, f: Fmt, seq: &[String], names: &[String], family: &str) {
    if ctx.report.evaluations % 16 == 0 {
        something_fails_first((ctx.report.evaluations / 16) as usize);
    }
    ctx.report.eval();
    ctx.report.bump(&format!("family.{}", family));
    ctx.report.bump(&format!("format.{}", f.name()));
    if seq.len() >= 2 {
        ctx.report.nontrivial(&format!("{}|{:?}", f.name(), seq));
    }
    ctx.journal.about_to(&format!("C08|{}", f.name()), &seq.join("\u{2}"));
    if let Some((_, why)) = seq_failure(f, seq) {
        report_seq(ctx, f, seq, names, family, why);
    }
    #[cfg(feature = "hooks")]
    if let Some(w) = hooked_multi_check(ctx, f, seq) {
        ctx.report.violate(
            format!("C08|hook|{}|{}", f.name(), w.split(" started").nth(1).unwrap_or("")),
            format!("[{}] {} in batch {:?}", f.name(), w, seq),
            J::obj().set("kind", "multi").set("format", f.name()).set("inputs", J::Arr(seq.iter().map(J::from).collect())).set("why", w.clone()),
        );
    }
    ctx.journal.done();
}

/// repeated parses, parse_chars, lexical parser twice
fn single_failure(f: Fmt, s: &str) -> Option<String> {
    let a = solo(f, s);
    let b = solo(f, s);
    if a != b {
        return Some(format!("parsing {:?} twice gave {} and then {}", s, a, b));
    }
    // equal by the library's own == as well (two parses build two independent values)
    if let (Ok(Ok(x)), Ok(Ok(y))) = (enum_parse_value(f, s), enum_parse_value(f, s)) {
        if let Obs::Ret(false) = observe(|| x == y) {
            return Some(format!("two parses of {:?} are semantically identical ({}) but compare unequal with ==", s, a));
        }
        // and equal to the value parse_multi returns for it after another input
        let r = observe(|| f.e().parse_multi(["A.", s]).into_iter().nth(1));
        if let Obs::Ret(Some(Ok(z))) = r {
            if let Obs::Ret(false) = observe(|| x == z) {
                return Some(format!("parse_multi's value for {:?} compares unequal (==) with the value of a solo parse", s));
            }
        }
    }
    let c = match observe(|| f.e().parse_chars::<Narsese>(s.chars().collect()).map(|v| canon_real_narsese(&v)).map_err(|e| e.to_string())) {
        Obs::Ret(Ok(c)) => format!("Ok({})", c),
        Obs::Ret(Err(_)) => "Err".to_string(),
        Obs::Panic(p) => format!("PANIC({})", panic_site(&p)),
    };
    if a != c {
        return Some(format!("parse({:?}) = {} but parse_chars gives {}", s, a, c));
    }
    // the typed stand-alone targets: string entry = character-vector entry, twice the same
    {
        use narsese::enum_narsese::{Budget, Punctuation, Stamp, Truth};
        macro_rules! typed {
            ($t:ty, $name:expr) => {{
                let cls = |r: Obs<Result<$t, String>>| match r {
                    Obs::Ret(Ok(v)) => format!("Ok({:?})", v),
                    Obs::Ret(Err(_)) => "Err".to_string(),
                    Obs::Panic(p) => format!("PANIC({})", panic_site(&p)),
                };
                let x = cls(observe(|| f.e().parse::<$t>(s).map_err(|e| e.to_string())));
                let y = cls(observe(|| f.e().parse_chars::<$t>(s.chars().collect()).map_err(|e| e.to_string())));
                let z = cls(observe(|| f.e().parse::<$t>(s).map_err(|e| e.to_string())));
                if x != y {
                    return Some(format!("parse::<{}>({:?}) = {} but parse_chars::<{}> gives {}", $name, s, x, $name, y));
                }
                if x != z {
                    return Some(format!("parse::<{}>({:?}) gave {} and then {}", $name, s, x, z));
                }
            }};
        }
        typed!(Truth, "Truth");
        typed!(Budget, "Budget");
        typed!(Stamp, "Stamp");
        typed!(Punctuation, "Punctuation");
    }
    let lex = |s: &str| match observe(|| f.l().parse(s).map(|v| lexgen::lex_canon(&v)).map_err(|e| e.to_string())) {
        Obs::Ret(Ok(c)) => format!("Ok({})", c),
        Obs::Ret(Err(_)) => "Err".to_string(),
        Obs::Panic(p) => format!("PANIC({})", panic_site(&p)),
    };
    let l1 = lex(s);
    let l2 = lex(s);
    if l1 != l2 {
        return Some(format!("lexical parse of {:?} gave {} and then {}", s, l1, l2));
    }
    None
}

/// the same parse on a freshly spawned thread (no history at all, fresh thread-locals) must agree
/// with the parse on this long-lived worker thread, which has parsed thousands of inputs before
fn fresh_thread_failure(f: Fmt, s: &str) -> Option<String> {
    let here_enum = solo(f, s);
    let here_lex = match observe(|| f.l().parse(s).map(|v| lexgen::lex_canon(&v)).map_err(|_| ())) {
        Obs::Ret(Ok(c)) => format!("Ok({})", c),
        Obs::Ret(Err(_)) => "Err".to_string(),
        Obs::Panic(p) => format!("PANIC({})", panic_site(&p)),
    };
    let text = s.to_string();
    let fresh = std::thread::spawn(move || {
        let e = match std::panic::catch_unwind(|| f.e().parse::<Narsese>(&text).map(|v| canon_real_narsese(&v)).map_err(|_| ())) {
            Ok(Ok(c)) => format!("Ok({})", c),
            Ok(Err(_)) => "Err".to_string(),
            Err(_) => "PANIC".to_string(),
        };
        let l = match std::panic::catch_unwind(|| f.l().parse(&text).map(|v| lexgen::lex_canon(&v)).map_err(|_| ())) {
            Ok(Ok(c)) => format!("Ok({})", c),
            Ok(Err(_)) => "Err".to_string(),
            Err(_) => "PANIC".to_string(),
        };
        (e, l)
    })
    .join()
    .ok()?;
    let norm = |x: &str| if x.starts_with("PANIC") { "PANIC".to_string() } else { x.to_string() };
    if norm(&here_enum) != fresh.0 {
        return Some(format!("enum parse of {:?} on the long-lived worker thread = {} but on a fresh thread = {}", s, here_enum, fresh.0));
    }
    if norm(&here_lex) != fresh.1 {
        return Some(format!("lexical parse of {:?} on the long-lived worker thread = {} but on a fresh thread = {}", s, here_lex, fresh.1));
    }
    None
}

type EF = narsese::conversion::string::impl_enum::NarseseFormat<&'static str>;

/// a copy of the enum format of `base` whose `ci`-th copula is spelled `alt`
fn derived_format(base: Fmt, ci: usize, alt: &'static str) -> (EF, &'static str) {
    let mut d: EF = match base {
        Fmt::Ascii => narsese::conversion::string::impl_enum::format_instances::FORMAT_ASCII,
        Fmt::Latex => narsese::conversion::string::impl_enum::format_instances::FORMAT_LATEX,
        Fmt::Han => narsese::conversion::string::impl_enum::format_instances::FORMAT_HAN,
    };
    let st = &mut d.statement;
    let slot: &mut &'static str = match ci {
        0 => &mut st.copula_inheritance,
        1 => &mut st.copula_similarity,
        2 => &mut st.copula_implication,
        3 => &mut st.copula_equivalence,
        4 => &mut st.copula_instance,
        5 => &mut st.copula_property,
        6 => &mut st.copula_instance_property,
        7 => &mut st.copula_implication_predictive,
        8 => &mut st.copula_implication_concurrent,
        9 => &mut st.copula_implication_retrospective,
        10 => &mut st.copula_equivalence_predictive,
        11 => &mut st.copula_equivalence_concurrent,
        _ => &mut st.copula_equivalence_retrospective,
    };
    let orig = *slot;
    *slot = alt;
    (d, orig)
}

fn class_with(e: &EF, s: &str) -> String {
    match observe(|| e.parse::<Narsese>(s).map(|v| canon_real_narsese(&v)).map_err(|_| ())) {
        Obs::Ret(Ok(c)) => format!("Ok({})", c),
        Obs::Ret(Err(_)) => "Err".to_string(),
        Obs::Panic(_) => "PANIC".to_string(),
    }
}

/// `base` and a one-copula variant of it used alternately on this long-lived thread, and in the
/// opposite order as the first work of a fresh thread, against each (format, text) parsed alone as
/// the first work of its own fresh thread
fn derived_format_check(ctx: &mut Ctx, base: Fmt, bi: usize, ci: usize) {
    let alt: &'static str = if base == Fmt::Han { "像" } else { "isa" };
    let (derived, orig) = derived_format(base, ci, alt);
    let basef: EF = derived_format(base, ci, orig).0;
    let (l, r) = (basef.statement.brackets.0, basef.statement.brackets.1);
    let texts: Vec<String> = vec![
        format!("{}A{}B{}", l, alt, r),
        format!("{}A{}B{}", l, orig, r),
        format!("{}A {} B{}", l, alt, r),
        format!("{}A {} B{}", l, orig, r),
        format!("{}A{}B{}{}", l, alt, r, basef.sentence.punctuation_judgement),
    ];
    // references: every (format, text) alone on its own fresh thread
    let mut reference: Vec<(bool, usize, String)> = vec![];
    for (which, e) in [(false, &basef), (true, &derived)] {
        for (ti, t) in texts.iter().enumerate() {
            let (t2, e2) = (t.clone(), e.clone());
            let c = std::thread::spawn(move || class_with(&e2, &t2)).join().unwrap_or_else(|_| "PANIC".into());
            reference.push((which, ti, c));
        }
    }
    let want = |which: bool, ti: usize| reference.iter().find(|(w, i, _)| *w == which && *i == ti).map(|x| x.2.clone()).unwrap_or_default();
    // the schedule: base, derived, derived, base, base over all texts
    let schedule = [false, true, true, false, false];
    fn run_schedule(basef: &EF, derived: &EF, order: &[bool], texts: &[String]) -> Vec<(bool, usize, String)> {
        let mut out = vec![];
        for which in order {
            for (ti, t) in texts.iter().enumerate() {
                let e = if *which { derived } else { basef };
                out.push((*which, ti, class_with(e, t)));
            }
        }
        out
    }
    let here = run_schedule(&basef, &derived, &schedule, &texts);
    let (texts2, b2, d2) = (texts.clone(), basef.clone(), derived.clone());
    let there = std::thread::spawn(move || run_schedule(&b2, &d2, &[true, false, true, false], &texts2)).join().unwrap_or_default();
    ctx.report.eval();
    ctx.report.bump("family.one-copula-variant-formats");
    ctx.report.nontrivial(&format!("derived|{}|{}", bi, ci));
    for (place, got) in [("on the long-lived worker thread", here), ("on a fresh thread that used the variant format first", there)] {
        for (which, ti, c) in got {
            let w = want(which, ti);
            if c != w {
                ctx.report.violate(
                    format!("C08|derived-format|{}|{}|{}", base.name(), ci, which),
                    format!(
                        "[{}] with a copy of the format whose copula {:?} is spelled {:?}: parsing {:?} with the {} format {} gives {} but alone on a fresh thread {}",
                        base.name(), orig, alt, texts[ti], if which { "variant" } else { "shipped" }, place, c, w
                    ),
                    J::obj().set("kind", "derived-format").set("format", base.name()).set("copula_index", ci as u64),
                );
                return;
            }
        }
    }
}

/// formats that differ from a shipped one only in their blank (a multi-byte or a multi-character one):
/// the string, character-vector and batch entry points agree on blank-led, blank-trailed and
/// blank-separated spellings, on this thread and on a fresh one
fn blank_variant_check(ctx: &mut Ctx, base: Fmt) {
    use crate::desc::*;
    use crate::surface::{tokens, Sugar};
    for blank in ["\u{3000}", "\u{a0}\u{a0}", "~~"] {
        let mut derived: EF = derived_format(base, 0, "").0;
        derived.statement.copula_inheritance = derived_format(base, 0, "").1; // (restore the copula)
        derived.space.parse = blank;
        let values = [
            ND::Term(TD::bin(Kind::Inh, TD::word("A"), TD::comp(Kind::Product, vec![TD::word("B"), TD::atom(Kind::IVar, "x")]))),
            ND::Sent(SD { term: TD::bin(Kind::Sim, TD::word("A"), TD::word("B")), punct: PunctD::Judgement, stamp: StampD::Present, truth: vec![1.0, 0.9] }),
            ND::Task(KD { sent: SD { term: TD::comp(Kind::SetExt, vec![TD::word("A"), TD::word("B")]), punct: PunctD::Goal, stamp: StampD::Fixed(-5), truth: vec![0.5] }, budget: vec![0.5, 0.25] }),
        ];
        let mut texts: Vec<String> = vec![];
        for nd in &values {
            let toks = tokens(base, nd, &mut Sugar::default());
            let compact = toks.concat();
            texts.push(compact.clone());
            texts.push(format!("{}{}", blank, compact));
            texts.push(format!("{}{}{}", blank, blank, compact));
            texts.push(format!("{}{}", compact, blank));
            texts.push(toks.join(blank));
        }
        ctx.report.eval();
        ctx.report.bump("family.blank-variant-formats");
        ctx.report.nontrivial(&format!("blank-variant|{}|{:?}", base.name(), blank));
        let run = |e: &EF, texts: &[String]| -> Vec<(String, String, String)> {
            let multi: Vec<String> = match observe(|| {
                e.parse_multi(texts.iter().map(|s| s.as_str()))
                    .into_iter()
                    .map(|r| match r {
                        Ok(v) => format!("Ok({})", canon_real_narsese(&v)),
                        Err(_) => "Err".to_string(),
                    })
                    .collect::<Vec<_>>()
            }) {
                Obs::Ret(v) => v,
                Obs::Panic(_) => vec!["PANIC".into(); texts.len()],
            };
            texts
                .iter()
                .enumerate()
                .map(|(i, t)| {
                    let chars = match observe(|| e.parse_chars::<Narsese>(t.chars().collect()).map(|v| canon_real_narsese(&v)).map_err(|_| ())) {
                        Obs::Ret(Ok(c)) => format!("Ok({})", c),
                        Obs::Ret(Err(_)) => "Err".to_string(),
                        Obs::Panic(_) => "PANIC".to_string(),
                    };
                    (class_with(e, t), chars, multi.get(i).cloned().unwrap_or_default())
                })
                .collect()
        };
        let here = run(&derived, &texts);
        let (d2, t2) = (derived.clone(), texts.clone());
        let there = std::thread::spawn(move || run(&d2, &t2)).join().unwrap_or_default();
        for (i, (a, b, c)) in here.iter().enumerate() {
            let fresh = there.get(i).cloned().unwrap_or_default();
            if a != b || a != c || *a != fresh.0 {
                ctx.report.violate(
                    format!("C08|blank-variant|{}|{:?}", base.name(), blank),
                    format!(
                        "[{}] with a copy of the format whose blank is {:?}: {:?} gives parse = {}, parse_chars = {}, parse_multi position = {}, parse on a fresh thread = {}",
                        base.name(), blank, texts[i], a, b, c, fresh.0
                    ),
                    J::obj().set("kind", "blank-variant").set("format", base.name()),
                );
                return;
            }
        }
    }
}

fn check_fresh(ctx: &mut Ctx, f: Fmt, s: &str) {
    ctx.report.eval();
    ctx.report.bump("family.history-vs-fresh-thread");
    if let Some(w) = fresh_thread_failure(f, s) {
        ctx.report.violate(
            format!("C08|fresh-thread|{}|{}", f.name(), w.split(" of ").next().unwrap_or("")),
            format!("[{}] {}", f.name(), w),
            J::obj().set("kind", "fresh-thread").set("format", f.name()).set("input", s).set("why", w.clone()),
        );
    }
}

fn check_single(ctx: &mut Ctx, f: Fmt, s: &str) {
    check_single_one(ctx, f, s, "family.repeat+chars+lexical");
    // the same input with one invisible / default-ignorable character (zero-width space and joiners,
    // BOM, word joiner, soft hyphen, ...) at its start, its end and somewhere inside: whatever the
    // parser makes of it, the string and the character-vector entry points must make the same
    if ctx.report.evaluations % 2 == 0 {
        const INVISIBLE: [char; 9] = ['\u{feff}', '\u{200b}', '\u{200c}', '\u{200d}', '\u{2060}', '\u{ad}', '\u{180e}', '\u{34f}', '\u{61c}'];
        let cs: Vec<char> = s.chars().collect();
        let h = cs.iter().fold(cs.len() as u64 + ctx.report.evaluations, |a, c| a.wrapping_mul(31).wrapping_add(*c as u64));
        for (j, pos) in [0usize, cs.len(), (h >> 7) as usize % (cs.len() + 1)].into_iter().enumerate() {
            let mut v = cs.clone();
            v.insert(pos, INVISIBLE[(h as usize + j) % INVISIBLE.len()]);
            let t: String = v.into_iter().collect();
            check_single_one(ctx, f, &t, "family.invisible-character-inserted");
        }
    }
}

fn check_single_one(ctx: &mut Ctx, f: Fmt, s: &str, family: &str) {
    if ctx.report.evaluations % 16 == 0 {
        something_fails_first((ctx.report.evaluations / 16) as usize);
    }
    ctx.report.eval();
    ctx.report.bump(family);
    if let Some(w) = single_failure(f, s) {
        ctx.report.violate(
            format!("C08|single|{}|{}", f.name(), s),
            format!("[{}] {}", f.name(), w),
            J::obj().set("kind", "single").set("format", f.name()).set("input", s).set("why", w.clone()),
        );
    }
}

/// interleaving check for the lexical parser: parse a *different* string between two parses
fn lexical_interleaving(ctx: &mut Ctx, f: Fmt, a: &str, b: &str) {
    let lex = |s: &str| match observe(|| f.l().parse(s).map(|v| lexgen::lex_canon(&v)).map_err(|_| ())) {
        Obs::Ret(Ok(c)) => format!("Ok({})", c),
        Obs::Ret(Err(_)) => "Err".to_string(),
        Obs::Panic(p) => format!("PANIC({})", panic_site(&p)),
    };
    let first = lex(a);
    let _ = lex(b);
    let again = lex(a);
    ctx.report.eval();
    ctx.report.bump("family.lexical-interleaving");
    if first != again {
        ctx.report.violate(
            format!("C08|lexical-history|{}|{:?}", f.name(), [a, b]),
            format!("[{}] lexical parse of {:?} changed from {} to {} after parsing {:?}", f.name(), a, first, again, b),
            J::obj().set("kind", "lexical-history").set("format", f.name()).set("inputs", J::Arr(vec![J::from(a), J::from(b)])),
        );
    }
}

/// the same batch from 16 threads sharing the static formats equals the solo results
fn thread_check(ctx: &mut Ctx, f: Fmt, batch: &[String]) {
    let expect: Vec<String> = batch.iter().map(|s| solo(f, s)).collect();
    let expect_lex: Vec<String> = batch
        .iter()
        .map(|s| match f.l().parse(s) {
            Ok(v) => lexgen::lex_canon(&v),
            Err(_) => "Err".into(),
        })
        .collect();
    let results: Vec<Result<(Vec<String>, Vec<String>), String>> = std::thread::scope(|sc| {
        let hs: Vec<_> = (0..16)
            .map(|_| {
                sc.spawn(|| {
                    let r = std::panic::catch_unwind(|| {
                        let e: Vec<String> = f
                            .e()
                            .parse_multi(batch.iter().map(|s| s.as_str()))
                            .into_iter()
                            .map(|r| match r {
                                Ok(v) => format!("Ok({})", canon_real_narsese(&v)),
                                Err(_) => "Err".into(),
                            })
                            .collect();
                        let l: Vec<String> = batch
                            .iter()
                            .map(|s| match f.l().parse(s) {
                                Ok(v) => lexgen::lex_canon(&v),
                                Err(_) => "Err".into(),
                            })
                            .collect();
                        (e, l)
                    });
                    r.map_err(|_| "panic in a parsing thread".to_string())
                })
            })
            .collect();
        hs.into_iter().map(|h| h.join().unwrap_or_else(|_| Err("thread died".into()))).collect()
    });
    ctx.report.eval();
    ctx.report.bump("family.16-thread-batches");
    for r in results {
        match r {
            Ok((e, l)) => {
                if e != expect || l != expect_lex {
                    ctx.report.violate(
                        format!("C08|threads|{}", f.name()),
                        format!("[{}] a batch parsed concurrently from 16 threads differs from the solo results", f.name()),
                        J::obj().set("kind", "threads").set("format", f.name()).set("inputs", J::Arr(batch.iter().map(J::from).collect())),
                    );
                }
            }
            Err(w) => {
                // panics inside parse are owned by C04; but only if they also happen alone
                if !expect.iter().any(|x| x.starts_with("PANIC")) {
                    ctx.report.violate(
                        format!("C08|threads-panic|{}", f.name()),
                        format!("[{}] {} although every input parses without panic alone", f.name(), w),
                        J::obj().set("kind", "threads").set("format", f.name()).set("inputs", J::Arr(batch.iter().map(J::from).collect())),
                    );
                }
            }
        }
    }
}

pub fn run(ctx: &mut Ctx) {
    // many threads at once (two per core, plus threads that work through other vocabularies and user-built
    // formats with other character predicates): every parse gives what it gave alone, before
    if ctx.shard < 4 {
        let mut cases: Vec<(Fmt, String, String, String)> = vec![];
        let lexc = |f: Fmt, s: &str| match observe(|| f.l().parse(s).map(|v| lexgen::lex_canon(&v)).map_err(|_| ())) {
            Obs::Ret(Ok(c)) => format!("Ok({})", c),
            Obs::Ret(Err(_)) => "Err".to_string(),
            Obs::Panic(p) => format!("PANIC({})", panic_site(&p)),
        };
        for f in ALL_FMT {
            let e = f.e();
            let mut texts: Vec<String> = fragments(f).into_iter().map(|(_, t)| t).collect();
            let (l, r) = e.compound.brackets_set_extension;
            texts.push(format!("{}x1{} y2{} z_3{} a-b{}", l, e.compound.separator, e.compound.separator, e.compound.separator, r));
            texts.push(format!("{}x1 {} y_2{}{}", e.statement.brackets.0, e.statement.copula_inheritance, e.statement.brackets.1, e.sentence.punctuation_judgement));
            // long inputs of many different lengths (a shared buffer or pool that is only used above some size)
            for i in 0..16usize {
                let base = &texts[(i * 5) % texts.len()].clone();
                texts.push(format!("{}{}{}", " ".repeat(60 + 97 * i), base, " ".repeat(31 * (i % 4))));
            }
            for t in texts {
                let (a, b) = (solo(f, &t), lexc(f, &t));
                cases.push((f, t, a, b));
            }
        }
        let rounds = if ctx.thorough { 40 } else { 4 };
        concurrent_family(ctx, "C08", "parse = what it gave alone", cases, rounds, |c| {
            let a = solo(c.0, &c.1);
            if a != c.2 {
                return Some(format!("parse({:?}) [{}] = {} but alone, before, it was {}", c.1, c.0.name(), a, c.2));
            }
            let b = match observe(|| c.0.l().parse(&c.1).map(|v| lexgen::lex_canon(&v)).map_err(|_| ())) {
                Obs::Ret(Ok(x)) => format!("Ok({})", x),
                Obs::Ret(Err(_)) => "Err".to_string(),
                Obs::Panic(p) => format!("PANIC({})", panic_site(&p)),
            };
            if b != c.3 {
                return Some(format!("lexical parse({:?}) [{}] = {} but alone, before, it was {}", c.1, c.0.name(), b, c.3));
            }
            None
        });
    }

    let mut idx = 0usize;
    for f in ALL_FMT {
        let frs = fragments(f);
        // every fragment alone: repeat / parse_chars / lexical
        for (_, s) in &frs {
            idx += 1;
            if ctx.mine(idx) {
                check_single(ctx, f, s);
            }
        }
        // all ordered pairs
        for (na, a) in &frs {
            for (nb, b) in &frs {
                idx += 1;
                if !ctx.mine(idx) {
                    continue;
                }
                check_seq(ctx, f, &[a.clone(), b.clone()], &[na.to_string(), nb.to_string()], "all-ordered-pairs");
                if idx % 7 == 0 {
                    lexical_interleaving(ctx, f, a, b);
                }
            }
        }
        // all triples over the 12-kind core
        let core: Vec<&(&str, String)> = CORE.iter().filter_map(|n| frs.iter().find(|(k, _)| k == n)).collect();
        for a in &core {
            for b in &core {
                for c in &core {
                    idx += 1;
                    if !ctx.mine(idx) {
                        continue;
                    }
                    check_seq(ctx, f, &[a.1.clone(), b.1.clone(), c.1.clone()], &[a.0.to_string(), b.0.to_string(), c.0.to_string()], "core-triples");
                }
            }
        }
    }
    // the empty input and one-character inputs through every entry point
    for f in ALL_FMT {
        for s in ["", " ", "\n", "\r\n", "\t", "A", "."] {
            idx += 1;
            if ctx.mine(idx) {
                check_single_one(ctx, f, s, "family.tiny-inputs");
            }
        }
    }
    // one batch of 70 000 inputs (more than 2^16 inputs and items): position i still equals the solo parse
    for (fi, f) in ALL_FMT.iter().enumerate() {
        if ctx.shard != (fi + 3) % ctx.nshards {
            continue;
        }
        let frs = fragments(*f);
        let texts: Vec<String> = frs.iter().map(|(_, s)| s.clone()).collect();
        let solo_classes: Vec<String> = texts.iter().map(|s| solo(*f, s)).collect();
        let total = 70_000usize;
        ctx.report.eval();
        ctx.report.bump("family.one-batch-of-70000-inputs");
        let r = observe(|| {
            let rs = f.e().parse_multi((0..total).map(|i| texts[i % texts.len()].as_str()));
            let mut bad = None;
            if rs.len() != total {
                bad = Some(format!("{} results for {} inputs", rs.len(), total));
            }
            for (i, r) in rs.iter().enumerate() {
                let c = match r {
                    Ok(v) => format!("Ok({})", canon_real_narsese(v)),
                    Err(_) => "Err".to_string(),
                };
                if c != solo_classes[i % texts.len()] {
                    bad = Some(format!("position {} ({:?}) = {} but alone {}", i, texts[i % texts.len()], c, solo_classes[i % texts.len()]));
                    break;
                }
            }
            bad
        });
        let why = match r {
            Obs::Ret(x) => x,
            Obs::Panic(p) => Some(format!("parse_multi panicked: {}", p)),
        };
        if let Some(w) = why {
            ctx.report.violate(format!("C08|big-batch|{}", f.name()), format!("[{}] one batch of {} inputs: {}", f.name(), total, w), J::obj().set("kind", "big-batch").set("format", f.name()));
        }
    }
    // formats that differ from a shipped one in a single copula: "the format" is a value, so two
    // formats that share most (not all) of their vocabulary must not influence each other either
    for base in ALL_FMT {
        idx += 1;
        if ctx.mine(idx) {
            blank_variant_check(ctx, base);
        }
    }
    for (bi, base) in ALL_FMT.iter().enumerate() {
        for ci in 0..13usize {
            idx += 1;
            if !ctx.mine(idx) {
                continue;
            }
            derived_format_check(ctx, *base, bi, ci);
        }
    }
    // long batches: one fragment repeated many times (accumulating hidden state), then every
    // fragment once; and the whole catalogue cycled
    for f in ALL_FMT {
        let frs = fragments(f);
        let reps = if ctx.thorough { 600 } else { 300 };
        for (k, s) in &frs {
            idx += 1;
            if !ctx.mine(idx) {
                continue;
            }
            let mut seq: Vec<String> = std::iter::repeat(s.clone()).take(reps).collect();
            let mut names: Vec<String> = vec![format!("{} x{}", k, reps)];
            for (k2, s2) in &frs {
                seq.push(s2.clone());
                names.push(k2.to_string());
            }
            check_seq(ctx, f, &seq, &names, "long-batches");
        }
        idx += 1;
        if ctx.mine(idx) {
            let seq: Vec<String> = (0..1000).map(|i| frs[i % frs.len()].1.clone()).collect();
            check_seq(ctx, f, &seq, &["catalogue cycled x1000".to_string()], "long-batches");
        }
    }
    ctx.report.note("exhaustive_subspaces", J::Arr(vec![J::from("all ordered pairs of the fragment catalogue x 3 formats"), J::from("all triples over the 12-kind core x 3 formats")]));
    // random sequences n <= 12 mixing catalogue fragments, well-formed values and mutated strings
    let mut rng = ctx.rng(0xC08);
    let gens: Vec<StrGen> = ALL_FMT.iter().map(|f| StrGen::new(*f)).collect();
    let n = ctx.share(1_000_000, 10_000_000);
    for i in 0..n {
        if ctx.out_of_time() {
            ctx.report.inconclusive.push(format!("random sequence workload cut at {} of {}", i, n));
            break;
        }
        let fi = rng.below(3);
        let f = ALL_FMT[fi];
        let frs = fragments(f);
        let len = rng.range(2, 12);
        let mut seq = vec![];
        let mut names = vec![];
        for _ in 0..len {
            match rng.below(6) {
                0 => {
                    let s = gens[fi].wellformed(&mut rng, 3);
                    seq.push(s);
                    names.push("wellformed".to_string());
                }
                1 => {
                    let s = gens[fi].wellformed(&mut rng, 3);
                    seq.push(gens[fi].mutate(&s, &mut rng));
                    names.push("mutated".to_string());
                }
                _ => {
                    let (k, s) = rng.pick(&frs);
                    seq.push(s.clone());
                    names.push(k.to_string());
                }
            }
        }
        // near-duplicates of earlier inputs later in the same batch: the exact text again, all blanks
        // removed, a blank inserted somewhere (often splitting a token), a letter's case flipped
        if i % 3 == 0 {
            for _ in 0..rng.range(1, 3) {
                let src = seq[rng.below(seq.len())].clone();
                let cs: Vec<char> = src.chars().collect();
                let (v, nm) = match rng.below(4) {
                    0 => (src.clone(), "duplicate"),
                    1 => (cs.iter().filter(|c| **c != ' ').collect::<String>(), "blanks-removed"),
                    2 => {
                        let mut v = cs.clone();
                        v.insert(rng.below(cs.len() + 1), ' ');
                        (v.into_iter().collect::<String>(), "blank-inserted")
                    }
                    _ => {
                        let mut v = cs.clone();
                        if let Some(p) = (0..v.len()).filter(|p| v[*p].is_ascii_alphabetic()).nth(rng.below(4)) {
                            v[p] = if v[p].is_ascii_lowercase() { v[p].to_ascii_uppercase() } else { v[p].to_ascii_lowercase() };
                        }
                        (v.into_iter().collect::<String>(), "case-flipped")
                    }
                };
                seq.push(v);
                names.push(nm.to_string());
            }
        }
        check_seq(ctx, f, &seq, &names, "random-sequences");
        if i % 9 == 0 {
            // prefixes of one buffer (same start address) and the buffer itself in one batch
            ctx.report.eval();
            ctx.report.bump("family.same-start-slices-in-one-batch");
            let full = &seq[rng.below(seq.len())];
            match prefix_slice_batch(f, full) {
                Some(rows) => {
                    if let Some((s, b, a)) = rows.into_iter().find(|(_, b, a)| b != a) {
                        ctx.report.violate(
                            format!("C08|same-start-slices|{}|{}", f.name(), full),
                            format!("[{}] {:?}, passed as a prefix slice of the buffer {:?} in one parse_multi call with other prefixes of it, = {} but alone {}", f.name(), s, full, b, a),
                            J::obj().set("kind", "same-start-slices").set("format", f.name()).set("input", full.as_str()),
                        );
                    }
                }
                None => {} // a panic: owned by the sequence checks above
            }
        }
        if i % 50 == 0 {
            ctx.report.sample(|| J::obj().set("format", f.name()).set("sequence", J::Arr(seq.iter().map(J::from).collect())));
            check_single(ctx, f, &seq[0]);
        }
        if i % 20 == 0 {
            // by now this thread has a long history of accepted and rejected inputs of all formats
            let k = rng.below(seq.len());
            check_fresh(ctx, f, &seq[k]);
            let wf = gens[fi].wellformed(&mut rng, 4);
            check_fresh(ctx, f, &wf);
        }
        if i % 400 == 0 {
            thread_check(ctx, f, &seq);
        }
    }
    ctx.report.note(
        "rule",
        "a case = one input sequence through parse_multi compared position-wise with solo parses (plus repeat / parse_chars / lexical-repeat / 16-thread checks); non-trivial = a sequence of >= 2 inputs; distinct = distinct (format, sequence)",
    );
    let _ = Rng::new(0);
}

pub fn replay(ctx: &mut Ctx, d: &J) -> Option<()> {
    if d.get("journal").is_some() {
        let label = jstr(d, "label")?;
        let f = Fmt::from_name(label.split('|').nth(1)?)?;
        let seq: Vec<String> = jstr(d, "input")?.split('\u{2}').map(|s| s.to_string()).collect();
        check_seq(ctx, f, &seq, &[], "replay");
        return Some(());
    }
    let f = fmt_of(d)?;
    match jstr(d, "kind")?.as_str() {
        "big-batch" => super::rerun_fixed(ctx),
        "blank-variant" => blank_variant_check(ctx, f),
        "same-start-slices" => {
            let full = jstr(d, "input")?;
            if let Some(rows) = prefix_slice_batch(f, &full) {
                if let Some((s, b, a)) = rows.into_iter().find(|(_, b, a)| b != a) {
                    ctx.report.violate(format!("C08|same-start-slices|{}|{}", f.name(), full), format!("{:?} = {} in the batch but alone {}", s, b, a), d.clone());
                }
            }
        }
        "derived-format" => {
            let ci = d.get("copula_index")?.as_i128()? as usize;
            let bi = ALL_FMT.iter().position(|x| *x == f)?;
            derived_format_check(ctx, f, bi, ci);
        }
        "single" => check_single_one(ctx, f, &jstr(d, "input")?, "replay"),
        "lexical-history" => {
            let v: Vec<String> = d.get("inputs")?.as_arr()?.iter().filter_map(|x| x.as_str().map(|s| s.to_string())).collect();
            lexical_interleaving(ctx, f, v.first()?, v.get(1)?);
        }
        _ => {
            let seq: Vec<String> = d.get("inputs")?.as_arr()?.iter().filter_map(|x| x.as_str().map(|s| s.to_string())).collect();
            check_seq(ctx, f, &seq, &[], "replay");
        }
    }
    Some(())
}
