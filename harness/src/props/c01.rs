//! C01 — enum Narsese survives format-then-parse in every shipped format.
//!
//! E: (F, desc v, s = format_F(build v), r = parse_F(s)); O: r = Ok(p) with canon_real(p) = canon(v)
//! (numbers bit-identical), and all formatting entry points agree on `s`.

use super::common::*;
use crate::desc::*;
use crate::guard::{observe, Obs};
use crate::json::J;
use crate::names::*;
use crate::shrink::shrink_nd;
use crate::Ctx;
use narsese::enum_narsese::Narsese;

/// Some(description of the failure) if the round trip of `nd` in `f` fails
pub fn roundtrip_failure(f: Fmt, nd: &ND) -> Option<String> {
    let v = match observe(|| nd.build()) {
        Obs::Ret(v) => v,
        Obs::Panic(p) => return Some(format!("building the value panicked: {}", p)),
    };
    let s = match enum_format(f, &v) {
        Ok(s) => s,
        Err(p) => return Some(format!("format_narsese panicked: {}", p)),
    };
    // all formatting entry points agree
    let alt = observe(|| match &v {
        Narsese::Term(t) => (f.e().format_term(t), f.e().format(t)),
        Narsese::Sentence(x) => (f.e().format_sentence(x), f.e().format(x)),
        Narsese::Task(x) => (f.e().format_task(x), f.e().format(x)),
    });
    match alt {
        Obs::Ret((a, b)) => {
            if a != s || b != s {
                return Some(format!(
                    "formatting entry points disagree: format_narsese={:?} specific={:?} format()={:?}",
                    s, a, b
                ));
            }
        }
        Obs::Panic(p) => return Some(format!("format_term/sentence/task panicked: {}", p)),
    }
    match enum_parse(f, &s) {
        Out::Ok(c) => {
            let want = nd.canon();
            if c != want {
                return Some(format!("parse({:?}) = {} but the original is {}", s, c, want));
            }
        }
        other => return Some(format!("parse({:?}) = {}", s, other.short())),
    }
    // ... and the library's own `==` must agree that the parsed value is the original
    // (users write `assert_eq!(parse(format(v)), v)`)
    match enum_parse_value(f, &s) {
        Ok(Ok(p)) => match observe(|| p == v) {
            Obs::Ret(true) => None,
            Obs::Ret(false) => Some(format!("parse({:?}) is semantically identical to the original ({}) but the library's == says they differ", s, nd.canon())),
            Obs::Panic(pn) => Some(format!("comparing the parsed value with the original panicked: {}", pn)),
        },
        _ => None,
    }
}

fn check(ctx: &mut Ctx, f: Fmt, nd: &ND, family: &str) {
    // something fails on this thread first (a rejected input, a refused mutation, a caught panic
    // inside the library): what it leaves behind must not reach the round trip that follows
    something_fails_first(ctx.report.evaluations as usize);
    ctx.report.eval();
    let canon = nd.canon();
    let nontrivial = !(matches!(nd, ND::Term(t) if t.kids.is_empty()));
    if nontrivial {
        ctx.report.nontrivial(&format!("{}|{}", f.name(), canon));
    }
    ctx.report.bump(&format!("format.{}", f.name()));
    ctx.report.bump(&format!("family.{}", family));
    ctx.report.bump(&format!("kind.{}", nd.kind_name()));
    nd.term().visit(&mut |t| ctx.report.bump(&format!("ctor.{}.{}", f.name(), t.k.tag())));
    match nd {
        ND::Sent(s) | ND::Task(KD { sent: s, .. }) => {
            ctx.report.bump(&format!("punct.{}", s.punct.tag()));
            ctx.report.bump(&format!("stamp.{}", s.stamp.kind_name()));
            if s.punct.has_truth() {
                ctx.report.bump(&format!("truth_arity.{}", s.truth.len()));
            }
        }
        _ => {}
    }
    if let ND::Task(k) = nd {
        ctx.report.bump(&format!("budget_arity.{}", k.budget.len()));
    }
    ctx.report.sample(|| {
        J::obj()
            .set("format", f.name())
            .set("value", canon.clone())
            .set("string", enum_format(f, &nd.build()).unwrap_or_default())
    });
    if let Some(why) = roundtrip_failure(f, nd) {
        let small = shrink_nd(nd, &mut |c| roundtrip_failure(f, c).is_some(), 400);
        let why_small = roundtrip_failure(f, &small).unwrap_or(why);
        let sig = format!("C01|{}|{}", f.name(), small.canon());
        ctx.report.violate(
            sig,
            format!("[{}] round trip fails: {}", f.name(), why_small),
            J::obj()
                .set("format", f.name())
                .set("value", small.to_json())
                .set("canon", small.canon())
                .set("original", nd.to_json())
                .set("family", family)
                .set("why", why_small.clone()),
        );
    }
}

/// all non-empty suffixes of the format's keywords (the keywords themselves included)
fn keyword_tails(f: Fmt) -> Vec<String> {
    let mut tails: Vec<String> = vec![];
    for k in keywords(f.e()) {
        let cs: Vec<char> = k.chars().collect();
        for cut in 0..cs.len() {
            tails.push(cs[cut..].iter().collect());
        }
    }
    tails.sort();
    tails.dedup();
    tails
}

/// `text` as every second line of one `parse_multi` batch, each time right after `text + tail + "A"`
fn shadow_failure(f: Fmt, tails: &[String], text: &str, want: &str) -> Option<String> {
    let r = observe(|| {
        let lines: Vec<String> = tails.iter().flat_map(|k| [format!("{}{}A", text, k), text.to_string()]).collect();
        let rs = f.e().parse_multi(lines.iter().map(|x| x.as_str()));
        if rs.len() != lines.len() {
            return Some(format!("{} results for {} inputs", rs.len(), lines.len()));
        }
        for (i, r) in rs.iter().enumerate().filter(|(i, _)| i % 2 == 1) {
            let got = match r {
                Ok(v) => canon_real_narsese(v),
                Err(e) => format!("Err({})", e.to_string().chars().take(80).collect::<String>()),
            };
            if got != want {
                return Some(format!("parse_multi([{:?}, {:?}])[1] = {} (expected {}; alone the line parses to it)", lines[i - 1], lines[i], got, want));
            }
        }
        None
    });
    match r {
        Obs::Ret(w) => w,
        Obs::Panic(p) => Some(format!("parse_multi panicked on a shadowed batch of {:?}: {}", text, p)),
    }
}

pub fn adversarial_cases(f: Fmt) -> Vec<ND> {
    let mut out = vec![];
    for (i, n) in adversarial_names(f).iter().enumerate() {
        let k = NAMED_ATOM_KINDS[i % NAMED_ATOM_KINDS.len()];
        for kind in [Kind::Word, k] {
            let a = TD::atom(kind, n);
            let sent = |t: TD| SD { term: t, punct: PunctD::Judgement, stamp: StampD::Eternal, truth: vec![] };
            out.push(ND::Term(a.clone()));
            out.push(ND::Sent(sent(a.clone())));
            out.push(ND::Sent(SD { term: a.clone(), punct: PunctD::Goal, stamp: StampD::Present, truth: vec![1.0, 0.9] }));
            out.push(ND::Task(KD { sent: sent(a.clone()), budget: vec![0.5] }));
            out.push(ND::Term(TD::comp(Kind::SetExt, vec![a.clone()])));
            out.push(ND::Term(TD::comp(Kind::Product, vec![TD::word("A"), a.clone()])));
            out.push(ND::Sent(sent(TD::bin(Kind::Inh, a.clone(), TD::word("A")))));
            out.push(ND::Sent(sent(TD::bin(Kind::Inh, TD::word("A"), a.clone()))));
            out.push(ND::Term(TD::bin(Kind::Sim, a.clone(), a.clone())));
            if kind == k && k == Kind::Word {
                break;
            }
        }
    }
    out
}

pub fn run(ctx: &mut Ctx) {
    let mut idx = 0usize;
    // (1) bounded-exhaustive depth<=2 universe over 4 base atoms, arity <= 3, rotating wrappers
    for f in ALL_FMT {
        let base = base_atoms(&["A", "B"]);
        let mut items: Vec<TD> = base.clone();
        items.push(TD::placeholder());
        items.push(TD::interval(0));
        items.push(TD::interval(usize::MAX));
        items.extend(universe_over(&base, 3, false));
        for (i, t) in items.into_iter().enumerate() {
            idx += 1;
            if !ctx.mine(idx) {
                continue;
            }
            let nd = wrap_rotating(t, i + ctx.seed as usize);
            check(ctx, f, &nd, "universe1");
        }
    }
    // (2) adversarial names (fixed enumeration)
    for f in ALL_FMT {
        for nd in adversarial_cases(f) {
            idx += 1;
            if !ctx.mine(idx) {
                continue;
            }
            check(ctx, f, &nd, "adversarial-names");
        }
    }
    // (3) one level deeper: constructors over a sample of depth-1 compounds
    let mut rng = ctx.rng(0xC01);
    for f in ALL_FMT {
        let names = safe_names(f);
        let g = Gen { names: &names, max_depth: 7, max_arity: 5, placeholders: true, set_bias: false };
        let n = ctx.share(2_400_000, 24_000_000) / 3;
        for i in 0..n {
            if ctx.out_of_time() {
                ctx.report.inconclusive.push(format!("random workload for {} cut at {} of {} by the time budget", f.name(), i, n));
                break;
            }
            let depth = 2 + rng.below(if i % 10 == 0 { 6 } else { 3 });
            let nd = g.narsese(&mut rng, depth);
            check(ctx, f, &nd, "random");
        }
    }
    // (4) extreme sizes (run on a thread with a large stack; not shrunk), as term, sentence and task
    for f in ALL_FMT {
        for (ci, (label, t)) in extreme_cases().into_iter().enumerate() {
            idx += 1;
            if !ctx.mine(idx) {
                continue;
            }
            let nd = wrap_rotating(t, ci);
            ctx.report.eval();
            ctx.report.bump("family.extreme-sizes");
            ctx.report.nontrivial(&format!("{}|extreme|{}|{}", f.name(), label, ci % 3));
            let nd2 = nd.clone();
            match on_big_stack(move || roundtrip_failure(f, &nd2)) {
                Some(None) => {}
                Some(Some(why)) => ctx.report.violate(
                    format!("C01|{}|extreme|{}", f.name(), label),
                    format!("[{}] round trip fails for the {}-case {}: {}", f.name(), ["term", "sentence", "task"][ci % 3], label, why.chars().take(400).collect::<String>()),
                    J::obj().set("format", f.name()).set("extreme", label.as_str()).set("wrap", ci as u64),
                ),
                None => ctx.report.violate(
                    format!("C01|{}|extreme-crash|{}", f.name(), label),
                    format!("[{}] the thread handling the extreme case {} died (stack overflow or abort-free panic outside the guard)", f.name(), label),
                    J::obj().set("format", f.name()).set("extreme", label.as_str()).set("wrap", ci as u64),
                ),
            }
        }
    }
    // (5) 70 000 formatted values as ONE `parse_multi` batch (the lines of a large dump)
    for (fi, f) in ALL_FMT.iter().enumerate() {
        if ctx.shard != fi % ctx.nshards {
            continue;
        }
        let base = base_atoms(&["A", "B"]);
        let mut items: Vec<TD> = base.clone();
        items.extend(universe_over(&base, 2, false).into_iter().take(600));
        let nds: Vec<ND> = items.into_iter().enumerate().map(|(i, t)| wrap_rotating(t, i)).collect();
        let texts: Vec<String> = nds.iter().map(|nd| f.e().format_narsese(&nd.build())).collect();
        let wants: Vec<String> = nds.iter().map(|nd| nd.canon()).collect();
        let total = 70_000usize;
        ctx.report.eval();
        ctx.report.bump("family.one-batch-of-70000-lines");
        let r = crate::guard::observe(|| {
            let e = f.e();
            let rs = e.parse_multi((0..total).map(|i| texts[i % texts.len()].as_str()));
            let mut bad: Option<(usize, String)> = None;
            if rs.len() != total {
                bad = Some((rs.len(), format!("{} results for {} inputs", rs.len(), total)));
            }
            for (i, r) in rs.iter().enumerate() {
                let got = match r {
                    Ok(v) => canon_real_narsese(v),
                    Err(e) => format!("Err({})", e.to_string().chars().take(80).collect::<String>()),
                };
                if got != wants[i % wants.len()] {
                    bad = Some((i, format!("line {} ({:?}) = {} (expected {})", i, texts[i % texts.len()], got, wants[i % wants.len()])));
                    break;
                }
            }
            bad
        });
        let why = match r {
            crate::guard::Obs::Ret(None) => None,
            crate::guard::Obs::Ret(Some((_, w))) => Some(w),
            crate::guard::Obs::Panic(p) => Some(format!("parse_multi panicked: {}", p)),
        };
        if let Some(w) = why {
            ctx.report.violate(
                format!("C01|{}|big-batch", f.name()),
                format!("[{}] formatted values parsed as one batch of {} lines: {}", f.name(), total, w),
                J::obj().set("format", f.name()).set("big_batch", total as u64),
            );
        }
    }
    // (6) every formatted value as a line of a `parse_multi` batch right after a *longer* line that
    //     continues it with a tail of one of the format's keywords (`x现` after `x现得A`): whatever the
    //     parser keeps of the previous line - a buffer that is overwritten but not shortened - must not
    //     complete a keyword behind the end of the current one.  Only values whose plain round trip
    //     holds are used (the others are family 2's business), so the batch is the only difference.
    for f in ALL_FMT {
        let tails = keyword_tails(f);
        let base = base_atoms(&["A", "B"]);
        let mut cases: Vec<ND> = adversarial_cases(f);
        cases.extend(universe_over(&base, 2, false).into_iter().take(300).enumerate().map(|(i, t)| wrap_rotating(t, i)));
        for nd in cases {
            idx += 1;
            if !ctx.mine(idx) {
                continue;
            }
            if roundtrip_failure(f, &nd).is_some() {
                continue;
            }
            let text = match enum_format(f, &nd.build()) {
                Ok(t) => t,
                Err(_) => continue,
            };
            let want = nd.canon();
            ctx.report.eval();
            ctx.report.bump("family.after-a-longer-line-in-one-batch");
            ctx.report.nontrivial(&format!("{}|shadowed|{}", f.name(), want));
            let why = shadow_failure(f, &tails, &text, &want);
            if let Some(w) = why {
                ctx.report.violate(
                    format!("C01|{}|shadowed|{}", f.name(), want),
                    format!("[{}] round trip through one batch fails: {}", f.name(), w),
                    J::obj().set("format", f.name()).set("value", nd.to_json()).set("shadowed", true).set("why", w.clone()),
                );
            }
        }
    }
    // (7) many threads at once in format + parse (two per core), on values that hold alone
    if ctx.shard < 4 {
        let base = base_atoms(&["A", "B"]);
        let mut cases: Vec<(Fmt, ND)> = vec![];
        for f in ALL_FMT {
            let pick = universe_over(&base, 2, false);
            let step = (pick.len() / 40).max(1);
            cases.extend(pick.into_iter().step_by(step).take(40).enumerate().map(|(i, t)| (f, wrap_rotating(t, i + ctx.shard))));
            cases.extend(adversarial_cases(f).into_iter().step_by(97).take(8).map(|nd| (f, nd)));
            // (many distinct numbers: a shared table of number texts has to evict)
            cases.extend((0..120usize).map(|i| {
                let x = (i * 3 + ctx.shard) as f64;
                let sent = SD { term: TD::word("A"), punct: PunctD::Judgement, stamp: StampD::Fixed(i as isize - 60), truth: vec![x / 997.0, (x + 1.0) / 1009.0] };
                (f, ND::Task(KD { sent, budget: vec![x / 1013.0, (x + 2.0) / 1019.0, (x + 3.0) / 1021.0] }))
            }));
        }
        let rounds = if ctx.thorough { 120 } else { 18 };
        concurrent_family(ctx, "C01", "format-then-parse", cases, rounds, |c| roundtrip_failure(c.0, &c.1));
    }
    ctx.report.note(
        "rule",
        "a case = (format, value description); non-trivial = the value is not a bare atom term; distinct = distinct (format, canonical form)",
    );
}

pub fn replay(ctx: &mut Ctx, d: &J) -> Option<()> {
    if d.get("concurrent").is_some() {
        super::rerun_fixed(ctx);
        return Some(());
    }
    let f = fmt_of(d)?;
    if let Some(label) = jstr(d, "extreme") {
        let nd = wrap_rotating(extreme_from_label(&label)?, d.get("wrap")?.as_i128()? as usize);
        match on_big_stack(move || roundtrip_failure(f, &nd)) {
            Some(None) => {}
            Some(Some(w)) => ctx.report.violate(format!("C01|{}|extreme|{}", f.name(), label), w, d.clone()),
            None => ctx.report.violate(format!("C01|{}|extreme-crash|{}", f.name(), label), "the thread died".into(), d.clone()),
        }
        return Some(());
    }
    if d.get("big_batch").is_some() {
        super::rerun_fixed(ctx);
        return Some(());
    }
    if d.get("shadowed").is_some() {
        let nd = nd_from_json(d.get("value")?)?;
        let text = enum_format(f, &nd.build()).ok()?;
        if let Some(w) = shadow_failure(f, &keyword_tails(f), &text, &nd.canon()) {
            ctx.report.violate(format!("C01|{}|shadowed|{}", f.name(), nd.canon()), w, d.clone());
        }
        return Some(());
    }
    let nd = nd_from_json(d.get("value")?)?;
    if let Some(why) = roundtrip_failure(f, &nd) {
        ctx.report.violate(format!("C01|{}|{}", f.name(), nd.canon()), why, d.clone());
    }
    Some(())
}
