//! C13 — truth, budget and evidence numbers accept exactly the closed unit interval.

use super::common::*;
use crate::guard::{observe, Obs};
use crate::json::J;
use crate::Ctx;
use narsese::api::EvidentNumber;
use narsese::api::EvidentValue;
use narsese::enum_narsese::{Budget, Truth};
use std::cell::Cell;

fn valid(x: f64) -> bool {
    0.0 <= x && x <= 1.0
}

pub fn special_values() -> Vec<f64> {
    let one_plus = f64::from_bits(1.0f64.to_bits() + 1);
    let one_minus = f64::from_bits(1.0f64.to_bits() - 1);
    vec![
        f64::NEG_INFINITY,
        f64::MIN,
        -2.0,
        -1.0,
        -one_plus,
        -0.5,
        -1e-300,
        -f64::MIN_POSITIVE,
        -5e-324,
        -0.0,
        0.0,
        5e-324,
        1e-320,
        f64::MIN_POSITIVE,
        1e-300,
        1e-7,
        0.1,
        0.30000000000000004,
        0.5,
        0.75,
        0.9,
        0.9999999999999999,
        one_minus,
        1.0,
        one_plus,
        1.0000001,
        1.5,
        2.0,
        1e300,
        f64::MAX,
        f64::INFINITY,
        f64::NAN,
        -f64::NAN,
        f64::from_bits(0x7ff0_0000_0000_0001), // signalling NaN pattern
        f64::from_bits(0x7ff8_0000_dead_beef),
        f64::from_bits(0xfff8_0000_0000_0001),
        f64::EPSILON,
        1.0 - f64::EPSILON,
        0.25,
        0.01,
    ]
}

fn bits_of(v: &[f64]) -> String {
    crate::desc::bits(v)
}

fn same_bits(a: f64, b: f64) -> bool {
    a.to_bits() == b.to_bits()
}

/// all checks on one tuple; returns the first discrepancy
fn check_tuple(v: &[f64]) -> Option<String> {
    // ---------- Truth ----------
    {
        let max = 2usize;
        let consumed = v.len().min(max);
        let expect_ok = v[..consumed].iter().all(|x| valid(*x));
        let pulled = Cell::new(0usize);
        // the argument is `impl Iterator`: exact-size, filtered (size_hint lower bound 0), generated
        let kind = (v.len() + v.first().map_or(0, |x| x.to_bits() as usize & 3)) % 4;
        let r = observe(|| {
            let it = v.iter().copied().inspect(|_| pulled.set(pulled.get() + 1));
            match kind {
                0 => Truth::try_from_floats(it),
                1 => Truth::try_from_floats(it.filter(|_| true)),
                2 => {
                    let mut i = 0usize;
                    Truth::try_from_floats(std::iter::from_fn(|| {
                        i += 1;
                        v.get(i - 1).copied()
                    }))
                }
                _ => Truth::try_from_floats(it.flat_map(Some)),
            }
        });
        let r = match r {
            Obs::Ret(r) => r,
            Obs::Panic(p) => return Some(format!("Truth::try_from_floats panicked: {}", p)),
        };
        if pulled.get() > max {
            // pulling more is harmless only if ignored; recorded, not a violation by itself
        }
        match (&r, expect_ok) {
            (Ok(t), true) => {
                let stored = crate::desc::truth_vec(t);
                if stored.len() != consumed {
                    return Some(format!("Truth::try_from_floats gave {} components for {} supplied", stored.len(), v.len()));
                }
                for i in 0..consumed {
                    if !same_bits(stored[i], v[i]) {
                        return Some(format!("Truth component {} stored as {:?}, supplied {:?}", i, stored[i], v[i]));
                    }
                }
                // accessors
                let acc = [
                    observe(|| t.f()),
                    observe(|| t.c()),
                    observe(|| t.frequency()),
                    observe(|| t.confidence()),
                    observe(|| t.get_frequency()),
                    observe(|| t.get_confidence()),
                ];
                for (i, a) in acc.iter().enumerate() {
                    let comp = i % 2;
                    match a {
                        Obs::Ret(x) => {
                            if comp >= consumed {
                                return Some(format!("Truth accessor #{} returned {:?} for a component the variant lacks", i, x));
                            }
                            if !same_bits(*x, v[comp]) {
                                return Some(format!("Truth accessor #{} returned {:?}, stored {:?}", i, x, v[comp]));
                            }
                        }
                        Obs::Panic(_) => {
                            if comp < consumed {
                                return Some(format!("Truth accessor #{} panicked for a component that exists", i));
                            }
                        }
                    }
                }
                // the combined accessor (a trait-provided method an impl may override): both or panic
                match observe(|| t.get_frequency_confidence()) {
                    Obs::Ret((f, c)) => {
                        if consumed < 2 {
                            return Some(format!("Truth::get_frequency_confidence returned ({:?}, {:?}) for a variant with {} component(s)", f, c, consumed));
                        }
                        if !same_bits(f, v[0]) || !same_bits(c, v[1]) {
                            return Some(format!("Truth::get_frequency_confidence returned ({:?}, {:?}), stored ({:?}, {:?})", f, c, v[0], v[1]));
                        }
                    }
                    Obs::Panic(_) => {
                        if consumed >= 2 {
                            return Some("Truth::get_frequency_confidence panicked although both components exist".into());
                        }
                    }
                }
            }
            (Err(_), false) => {}
            (Ok(_), false) => return Some("Truth::try_from_floats accepted a consumed component outside [0,1]".into()),
            (Err(e), true) => return Some(format!("Truth::try_from_floats rejected components that are all in [0,1]: {}", e)),
        }
        // panicking constructors agree (exact arity only)
        if v.len() == 1 {
            let p = observe(|| Truth::new_single(v[0]));
            match (p, expect_ok) {
                (Obs::Ret(t), true) => {
                    if !matches!(t, Truth::Single(x) if same_bits(x, v[0])) {
                        return Some("Truth::new_single stored something else".into());
                    }
                }
                (Obs::Panic(_), false) => {}
                (Obs::Ret(_), false) => return Some("Truth::new_single did not panic although try_from_floats is Err".into()),
                (Obs::Panic(_), true) => return Some("Truth::new_single panicked although try_from_floats is Ok".into()),
            }
        }
        if v.len() == 2 {
            let p = observe(|| Truth::new_double(v[0], v[1]));
            match (p, expect_ok) {
                (Obs::Ret(t), true) => {
                    if !matches!(t, Truth::Double(x, y) if same_bits(x, v[0]) && same_bits(y, v[1])) {
                        return Some("Truth::new_double stored something else".into());
                    }
                }
                (Obs::Panic(_), false) => {}
                (Obs::Ret(_), false) => return Some("Truth::new_double did not panic although try_from_floats is Err".into()),
                (Obs::Panic(_), true) => return Some("Truth::new_double panicked although try_from_floats is Ok".into()),
            }
        }
        if v.is_empty() && !matches!(Truth::new_empty(), Truth::Empty) {
            return Some("Truth::new_empty is not Empty".into());
        }
    }
    // ---------- Budget ----------
    {
        let max = 3usize;
        let consumed = v.len().min(max);
        let expect_ok = v[..consumed].iter().all(|x| valid(*x));
        let kind = (v.len() + v.last().map_or(0, |x| x.to_bits() as usize & 3)) % 4;
        let r = match observe(|| match kind {
            0 => Budget::try_from_floats(v.iter().copied()),
            1 => Budget::try_from_floats(v.iter().copied().filter(|_| true)),
            2 => Budget::try_from_floats(v.iter().copied().skip_while(|_| false)),
            _ => Budget::try_from_floats(v.iter().map(|x| *x).scan((), |_, x| Some(x))),
        }) {
            Obs::Ret(r) => r,
            Obs::Panic(p) => return Some(format!("Budget::try_from_floats panicked: {}", p)),
        };
        match (&r, expect_ok) {
            (Ok(b), true) => {
                let stored = crate::desc::budget_vec(b);
                if stored.len() != consumed {
                    return Some(format!("Budget::try_from_floats gave {} components for {} supplied", stored.len(), v.len()));
                }
                for i in 0..consumed {
                    if !same_bits(stored[i], v[i]) {
                        return Some(format!("Budget component {} stored as {:?}, supplied {:?}", i, stored[i], v[i]));
                    }
                }
                if b.is_empty() != (consumed == 0) {
                    return Some("Budget::is_empty disagrees with the variant".into());
                }
                let acc = [
                    observe(|| b.p()),
                    observe(|| b.d()),
                    observe(|| b.q()),
                    observe(|| b.priority()),
                    observe(|| b.duality()),
                    observe(|| b.quality()),
                ];
                for (i, a) in acc.iter().enumerate() {
                    let comp = i % 3;
                    match a {
                        Obs::Ret(x) => {
                            if comp >= consumed {
                                return Some(format!("Budget accessor #{} returned {:?} for a component the variant lacks", i, x));
                            }
                            if !same_bits(*x, v[comp]) {
                                return Some(format!("Budget accessor #{} returned {:?}, stored {:?}", i, x, v[comp]));
                            }
                        }
                        Obs::Panic(_) => {
                            if comp < consumed {
                                return Some(format!("Budget accessor #{} panicked for a component that exists", i));
                            }
                        }
                    }
                }
            }
            (Err(_), false) => {}
            (Ok(_), false) => return Some("Budget::try_from_floats accepted a consumed component outside [0,1]".into()),
            (Err(e), true) => return Some(format!("Budget::try_from_floats rejected components that are all in [0,1]: {}", e)),
        }
        let p = match v.len() {
            1 => Some(observe(|| Budget::new_single(v[0]))),
            2 => Some(observe(|| Budget::new_double(v[0], v[1]))),
            3 => Some(observe(|| Budget::new_triple(v[0], v[1], v[2]))),
            _ => None,
        };
        if let Some(p) = p {
            match (p, expect_ok) {
                (Obs::Ret(b), true) => {
                    let stored = crate::desc::budget_vec(&b);
                    if stored.len() != v.len() || stored.iter().zip(v).any(|(a, b)| !same_bits(*a, *b)) {
                        return Some("Budget::new_* stored something else".into());
                    }
                }
                (Obs::Panic(_), false) => {}
                (Obs::Ret(_), false) => return Some("Budget::new_* did not panic although try_from_floats is Err".into()),
                (Obs::Panic(_), true) => return Some("Budget::new_* panicked although try_from_floats is Ok".into()),
            }
        }
    }
    None
}

/// the three entry points once more, called from a destructor that runs while the thread is already
/// unwinding from an unrelated panic (scope guards do that): same answers as in a normal call
fn check_number_while_unwinding(x: f64) -> Option<String> {
    use std::cell::Cell;
    use std::panic::{catch_unwind, AssertUnwindSafe};
    struct Guard<'a>(f64, &'a Cell<Option<(bool, bool, bool)>>);
    impl Drop for Guard<'_> {
        fn drop(&mut self) {
            let x = self.0;
            let is_valid = EvidentNumber::is_valid(&x);
            let try_ok = EvidentNumber::try_validate(&x).is_ok();
            let validate_returned = catch_unwind(AssertUnwindSafe(|| {
                let _ = EvidentNumber::validate(&x);
            }))
            .is_ok();
            self.1.set(Some((is_valid, try_ok, validate_returned)));
        }
    }
    crate::guard::install_panic_hook();
    let seen = Cell::new(None);
    let _ = catch_unwind(AssertUnwindSafe(|| {
        let _g = Guard(x, &seen);
        panic!("unrelated panic raised by the harness");
    }));
    let want = valid(x);
    match seen.get() {
        Some((a, b, c)) if a == want && b == want && c == want => None,
        Some((a, b, c)) => Some(format!("inside a destructor running during an unrelated unwind: is_valid = {}, try_validate is {}, validate {} - but 0 <= x <= 1 is {}", a, if b { "Ok" } else { "Err" }, if c { "returned" } else { "panicked" }, want)),
        None => Some("the destructor did not run".into()),
    }
}

fn check_number(x: f64) -> Option<String> {
    if let Some(w) = check_number_while_unwinding(x) {
        return Some(w);
    }
    let want = valid(x);
    let a = match observe(|| EvidentNumber::is_valid(&x)) {
        Obs::Ret(a) => a,
        Obs::Panic(p) => return Some(format!("is_valid panicked: {}", p)),
    };
    let b = match observe(|| EvidentNumber::try_validate(&x).map(|r| r.to_bits()).map_err(|e| e.to_string())) {
        Obs::Ret(b) => b,
        Obs::Panic(p) => return Some(format!("try_validate panicked: {}", p)),
    };
    let c = observe(|| EvidentNumber::validate(&x).to_bits());
    if a != want {
        return Some(format!("is_valid = {} but 0 <= x <= 1 is {}", a, want));
    }
    match (&b, want) {
        (Ok(bits), true) => {
            if *bits != x.to_bits() {
                return Some("try_validate returned a different number".into());
            }
        }
        (Err(_), false) => {}
        _ => return Some(format!("try_validate is {} but 0 <= x <= 1 is {}", if b.is_ok() { "Ok" } else { "Err" }, want)),
    }
    match (&c, want) {
        (Obs::Ret(bits), true) => {
            if *bits != x.to_bits() {
                return Some("validate returned a different number".into());
            }
        }
        (Obs::Panic(_), false) => {}
        (Obs::Ret(_), false) => return Some("validate did not panic for an invalid number".into()),
        (Obs::Panic(_), true) => return Some("validate panicked for a valid number".into()),
    }
    if want {
        for n in [0usize, 1, 2, 3, 10, 1000, usize::MAX] {
            match observe(|| EvidentNumber::root(x, n)) {
                Obs::Ret(r) => {
                    if !valid(r) {
                        return Some(format!("root(x, {}) = {:?} is not in [0,1]", n, r));
                    }
                }
                Obs::Panic(p) => return Some(format!("root(x, {}) panicked: {}", n, p)),
            }
        }
    }
    None
}

fn violate_tuple(ctx: &mut Ctx, v: &[f64], why: String) {
    // shrink: drop trailing surplus items, replace components by 0.5 while it still fails
    let mut cur = v.to_vec();
    loop {
        let mut progressed = false;
        if cur.len() > 0 {
            let mut c = cur.clone();
            c.pop();
            if check_tuple(&c).is_some() {
                cur = c;
                progressed = true;
            }
        }
        if !progressed {
            for i in 0..cur.len() {
                if cur[i].to_bits() != 0.5f64.to_bits() {
                    let mut c = cur.clone();
                    c[i] = 0.5;
                    if check_tuple(&c).is_some() {
                        cur = c;
                        progressed = true;
                        break;
                    }
                }
            }
        }
        if !progressed {
            break;
        }
    }
    let why = check_tuple(&cur).unwrap_or(why);
    ctx.report.violate(
        format!("C13|tuple|{}|{}", why, bits_of(&cur)),
        format!("{} for components {:?}", why, cur),
        J::obj()
            .set("kind", "tuple")
            .set("bits", J::Arr(cur.iter().map(|f| J::Str(format!("{:016x}", f.to_bits()))).collect()))
            .set("values", J::Arr(cur.iter().map(|f| J::Str(format!("{:?}", f))).collect()))
            .set("why", why.clone()),
    );
}

fn is_special(x: f64) -> bool {
    !(x > 1e-3 && x < 0.999)
}

pub fn run(ctx: &mut Ctx) {
    let sv = special_values();
    let n = sv.len();
    let mut idx = 0usize;
    // exhaustive product for arities 0..=3
    let mut tuple = vec![];
    for arity in 0..=3usize {
        let total = n.pow(arity as u32);
        for code in 0..total {
            idx += 1;
            if !ctx.mine(idx) {
                continue;
            }
            tuple.clear();
            let mut c = code;
            for _ in 0..arity {
                tuple.push(sv[c % n]);
                c /= n;
            }
            ctx.report.eval();
            ctx.report.bump(&format!("arity.{}", arity));
            if tuple.iter().any(|x| is_special(*x)) || arity == 0 {
                ctx.report.nontrivial(&bits_of(&tuple));
            }
            if code % 4099 == 0 {
                let t = tuple.clone();
                ctx.report.sample(|| J::Arr(t.iter().map(|f| J::Str(format!("{:?}", f))).collect()));
            }
            if let Some(w) = check_tuple(&tuple) {
                let t = tuple.clone();
                violate_tuple(ctx, &t, w);
            }
        }
    }
    ctx.report.note("exhaustive_subspaces", J::Arr(vec![J::from(format!("{} special values ^ arity 0..=3 through every Truth/Budget constructor and accessor", n))]));
    // sampled arities 4..=5 (surplus items) and random tuples
    let mut rng = ctx.rng(0xC13);
    let m = ctx.share(3_000_000, 60_000_000);
    for i in 0..m {
        if ctx.out_of_time() {
            ctx.report.inconclusive.push(format!("random tuple workload cut at {} of {}", i, m));
            break;
        }
        let arity = if i % 2 == 0 { 4 + rng.below(2) } else { rng.below(6) };
        tuple.clear();
        for _ in 0..arity {
            let x = match rng.below(4) {
                0 => *rng.pick(&sv),
                1 => f64::from_bits(rng.next_u64()),
                2 => rng.unit_f64(),
                _ => {
                    // near a boundary
                    let base = if rng.chance(1, 2) { 1.0f64 } else { 0.0 };
                    let d = (rng.below(7) as i64) - 3;
                    if base == 0.0 {
                        if d < 0 { -f64::from_bits((-d) as u64) } else { f64::from_bits(d as u64) }
                    } else {
                        f64::from_bits((base.to_bits() as i64 + d) as u64)
                    }
                }
            };
            tuple.push(x);
        }
        ctx.report.eval();
        ctx.report.bump(&format!("arity.{}", arity));
        if tuple.iter().any(|x| is_special(*x)) {
            ctx.report.nontrivial(&bits_of(&tuple));
        }
        if let Some(w) = check_tuple(&tuple) {
            let t = tuple.clone();
            violate_tuple(ctx, &t, w);
        }
    }
    // long sequences: surplus items by the hundreds and thousands (valid and invalid surplus)
    for len in [6usize, 7, 8, 15, 16, 17, 31, 32, 33, 63, 64, 65, 127, 128, 129, 254, 255, 256, 257, 258, 259, 300, 511, 512, 513, 1000, 4096, 65535, 65536, 65537, 100_000] {
        idx += 1;
        if !ctx.mine(idx) {
            continue;
        }
        for head_valid in [true, false] {
            for surplus in [0.5f64, 7.0, f64::NAN] {
                let mut t: Vec<f64> = vec![0.25, if head_valid { 0.75 } else { 1.5 }, 1.0];
                t.resize(len, surplus);
                ctx.report.eval();
                ctx.report.bump("family.long-sequences");
                ctx.report.nontrivial(&format!("long|{}|{}|{:?}", len, head_valid, surplus.to_bits()));
                if let Some(w) = check_tuple(&t) {
                    ctx.report.violate(
                        format!("C13|long|{}|{}", w, len),
                        format!("{} for a sequence of {} items (head {:?}, surplus {:?})", w, len, &t[..3], surplus),
                        J::obj().set("kind", "long").set("len", len).set("head_valid", head_valid).set("surplus_bits", format!("{:016x}", surplus.to_bits())).set("why", w.clone()),
                    );
                }
            }
        }
    }
    // evidence-number API: specials + random bit patterns
    let k = ctx.share(12_000_000, 400_000_000);
    let mut nums: Vec<f64> = sv.clone();
    for x in [<f64 as EvidentNumber>::zero(), <f64 as EvidentNumber>::one()] {
        nums.push(x);
        if !valid(x) {
            ctx.report.violate("C13|zero-one".into(), "zero()/one() is not a valid evidence number".into(), J::obj().set("kind", "zero-one"));
        }
    }
    if <f64 as EvidentNumber>::zero().to_bits() != 0.0f64.to_bits() || <f64 as EvidentNumber>::one().to_bits() != 1.0f64.to_bits() {
        ctx.report.violate("C13|zero-one-value".into(), "zero()/one() are not 0.0 / 1.0".into(), J::obj().set("kind", "zero-one"));
    }
    for i in 0..k {
        if i % 65536 == 0 && ctx.out_of_time() {
            ctx.report.inconclusive.push(format!("random number workload cut at {} of {}", i, k));
            break;
        }
        let x = if (i as usize) < nums.len() && ctx.shard == 0 {
            nums[i as usize]
        } else {
            match i % 3 {
                0 => f64::from_bits(rng.next_u64()),
                1 => rng.unit_f64(),
                _ => f64::from_bits((1.0f64.to_bits() as i64 + (rng.below(2001) as i64 - 1000)) as u64),
            }
        };
        ctx.report.eval();
        ctx.report.bump("single numbers");
        if is_special(x) {
            ctx.report.nontrivial_fp(x.to_bits() ^ 0x5151_5151);
        }
        if let Some(w) = check_number(x) {
            ctx.report.violate(
                format!("C13|number|{}|{:016x}", w, x.to_bits()),
                format!("{} for x = {:?} (bits {:016x})", w, x, x.to_bits()),
                J::obj().set("kind", "number").set("bits", format!("{:016x}", x.to_bits())).set("why", w.clone()),
            );
        }
    }
    ctx.report.note(
        "rule",
        "a case = one component tuple through all Truth/Budget constructors and accessors, or one f64 through the evidence-number API; non-trivial = contains a boundary / out-of-range / non-finite / subnormal / signed-zero value (not an ordinary number strictly inside (0.001, 0.999)); distinct by bit pattern",
    );
}

pub fn replay(ctx: &mut Ctx, d: &J) -> Option<()> {
    let kind = jstr(d, "kind")?;
    match kind.as_str() {
        "tuple" => {
            let v: Vec<f64> = d
                .get("bits")?
                .as_arr()?
                .iter()
                .map(|b| b.as_str().and_then(|s| u64::from_str_radix(s, 16).ok()).map(f64::from_bits))
                .collect::<Option<Vec<_>>>()?;
            if let Some(w) = check_tuple(&v) {
                ctx.report.violate(format!("C13|tuple|{}|{}", w, bits_of(&v)), w, d.clone());
            }
        }
        "long" => {
            let len = d.get("len")?.as_i128()? as usize;
            let head_valid = matches!(d.get("head_valid"), Some(J::Bool(true)));
            let surplus = f64::from_bits(u64::from_str_radix(&jstr(d, "surplus_bits")?, 16).ok()?);
            let mut t: Vec<f64> = vec![0.25, if head_valid { 0.75 } else { 1.5 }, 1.0];
            t.resize(len, surplus);
            if let Some(w) = check_tuple(&t) {
                ctx.report.violate(format!("C13|long|{}|{}", w, len), w, d.clone());
            }
        }
        "number" => {
            let x = f64::from_bits(u64::from_str_radix(&jstr(d, "bits")?, 16).ok()?);
            if let Some(w) = check_number(x) {
                ctx.report.violate(format!("C13|number|{}", w), w, d.clone());
            }
        }
        _ => {}
    }
    Some(())
}
