//! C03 — direct enum parsing and lexical parsing plus folding give the same value.

use super::common::*;
use crate::desc::*;
use crate::json::J;
use crate::lexgen::LexGen;
use crate::names::*;
use crate::shrink::shrink_nd;
use crate::surface::*;
use crate::Ctx;

/// Some(why) when the two pipelines disagree on `s` (or one of them fails)
pub fn string_failure(f: Fmt, s: &str, must_succeed: bool) -> Option<String> {
    let a = enum_parse(f, s);
    let b = lex_fold_parse(f, s);
    match (&a, &b) {
        (Out::Ok(x), Out::Ok(y)) => {
            if x == y {
                // semantically identical: the library's own == must say so too
                match (enum_parse_value(f, s), lex_fold_value(f, s)) {
                    (Ok(Ok(p)), Some(q)) => match crate::guard::observe(|| p == q) {
                        crate::guard::Obs::Ret(false) => Some(format!("{:?}: both pipelines give {} but the library's == says the two values differ", s, x)),
                        _ => None,
                    },
                    _ => None,
                }
            } else {
                Some(format!("{:?}: enum parser = {} but lexical parser + fold = {}", s, x, y))
            }
        }
        (Out::Panic(_), _) | (_, Out::Panic(_)) => Some(format!("{:?}: enum parser = {}, lexical parser + fold = {}", s, a.short(), b.short())),
        (Out::Err(_), Out::Err(_)) => {
            if must_succeed {
                Some(format!("{:?}: both pipelines fail: enum parser = {}, lexical + fold = {}", s, a.short(), b.short()))
            } else {
                None
            }
        }
        _ => Some(format!("{:?}: enum parser = {} but lexical parser + fold = {}", s, a.short(), b.short())),
    }
}

/// The same relation through the batch entry point: position i of `parse_multi(batch)` against the
/// lexical parse + fold of input i alone.  Some((position, why)).
pub fn batch_failure(f: Fmt, batch: &[String]) -> Option<(usize, String)> {
    let r = crate::guard::observe(|| {
        let mut joined = String::new();
        parse_multi_any(f.e(), batch, &mut joined).into_iter().map(|r| r.map(|v| canon_real_narsese(&v)).map_err(|e| e.to_string())).collect::<Vec<_>>()
    });
    let rs = match r {
        crate::guard::Obs::Ret(v) => v,
        crate::guard::Obs::Panic(p) => return Some((0, format!("parse_multi panicked on the batch: {}", p))),
    };
    if rs.len() != batch.len() {
        return Some((0, format!("parse_multi returned {} results for {} inputs", rs.len(), batch.len())));
    }
    for (i, (r, s)) in rs.iter().zip(batch.iter()).enumerate() {
        let b = lex_fold_parse(f, s);
        match (r, &b) {
            (Ok(x), Out::Ok(y)) if x == y => {}
            (Err(_), Out::Err(_)) => {}
            _ => {
                return Some((
                    i,
                    format!("{:?} at position {} of a parse_multi batch = {} but lexical parser + fold = {}", s, i, match r { Ok(x) => x.clone(), Err(e) => format!("Err({})", e.chars().take(60).collect::<String>()) }, b.short()),
                ))
            }
        }
    }
    None
}

thread_local! {
    /// the strings that passed the pairwise check most recently, per format, waiting to go through `parse_multi` together
    static RECENT: std::cell::RefCell<[Vec<String>; 3]> = const { std::cell::RefCell::new([Vec::new(), Vec::new(), Vec::new()]) };
}

/// collect the strings that passed; every 12 of one format are parsed as one batch (rotated so that
/// every collected string is the first input of some batch over time)
fn remember(ctx: &mut Ctx, f: Fmt, s: &str) {
    let fi = ALL_FMT.iter().position(|x| *x == f).unwrap();
    let batch: Option<Vec<String>> = RECENT.with(|r| {
        let mut r = r.borrow_mut();
        if s.chars().count() <= 400 {
            r[fi].push(s.to_string());
        }
        if r[fi].len() >= 12 {
            let mut b = std::mem::take(&mut r[fi]);
            let k = (ctx.report.evaluations as usize) % b.len();
            b.rotate_left(k);
            Some(b)
        } else {
            None
        }
    });
    if let Some(b) = batch {
        ctx.report.bump("batches-of-12-through-parse_multi");
        if let Some((i, w)) = batch_failure(f, &b) {
            // shrink the batch: drop inputs while the same position keeps failing
            let mut cur = b.clone();
            let mut pos = i;
            let mut k = 0;
            while k < cur.len() {
                if k != pos {
                    let mut c = cur.clone();
                    c.remove(k);
                    let np = if k < pos { pos - 1 } else { pos };
                    if matches!(batch_failure(f, &c), Some((j, _)) if j == np) {
                        cur = c;
                        pos = np;
                        continue;
                    }
                }
                k += 1;
            }
            let w2 = batch_failure(f, &cur).map(|x| x.1).unwrap_or(w);
            ctx.report.violate(
                format!("C03|{}|batch|{}", f.name(), w2.split(" = ").nth(1).unwrap_or("").chars().take(30).collect::<String>()),
                format!("[{}] {} (batch {:?})", f.name(), w2, cur),
                J::obj().set("kind", "batch").set("format", f.name()).set("inputs", J::Arr(cur.iter().map(J::from).collect())).set("why", w2.clone()),
            );
        }
    }
}

/// a bare term also through the lexical term-only entry point (`parse_term`) + fold
fn term_entry_failure(f: Fmt, s: &str) -> Option<String> {
    let (a, b) = (enum_parse(f, s), lex_term_fold_parse(f, s));
    match (&a, &b) {
        (Out::Ok(x), Out::Ok(y)) if x == y => None,
        _ => Some(format!("{:?}: enum parser = {} but lexical parse_term + fold = {}", s, a.short(), b.short())),
    }
}

fn value_failure(f: Fmt, nd: &ND, variant: u64) -> Option<String> {
    let v = nd.build();
    let s = f.e().format_narsese(&v);
    if let Some(w) = string_failure(f, &s, true) {
        return Some(w);
    }
    // the same value written with the derived copulas (and, in some variants, zero-padded intervals and
    // suffixed placeholders - other spellings of the same atoms)
    let mut sugar = Sugar {
        derived_copulas: true,
        retrospective: true,
        interval_pad: [0usize, 0, 2, 19, 23, 40][(variant % 6) as usize],
        placeholder_suffix: ["", "", "x", "12"][((variant / 8) % 4) as usize].to_string(),
        coin: if variant % 2 == 0 { None } else { Some(variant | 1) },
        pinned: false,
    };
    let toks = tokens(f, nd, &mut sugar);
    let text = toks.join(" ");
    if let Some(w) = string_failure(f, &text, true) {
        return Some(w);
    }
    if matches!(nd, ND::Term(_)) {
        return term_entry_failure(f, &s).or_else(|| term_entry_failure(f, &text));
    }
    None
}

fn check_value(ctx: &mut Ctx, f: Fmt, nd: &ND, variant: u64, family: &str) {
    something_fails_first(ctx.report.evaluations as usize);
    ctx.report.eval();
    ctx.report.bump(&format!("family.{}", family));
    ctx.report.bump(&format!("format.{}", f.name()));
    if !matches!(nd, ND::Term(t) if t.kids.is_empty()) {
        ctx.report.nontrivial(&format!("{}|{}", f.name(), nd.canon()));
    }
    nd.term().visit(&mut |t| ctx.report.bump(&format!("ctor.{}.{}", f.name(), t.k.tag())));
    ctx.report.sample(|| J::obj().set("format", f.name()).set("string", f.e().format_narsese(&nd.build())));
    let verdict = value_failure(f, nd, variant);
    if verdict.is_none() {
        let s = f.e().format_narsese(&nd.build());
        remember(ctx, f, &s);
        if variant % 3 == 0 {
            // ... and the compact spelling of the same value (no blanks between tokens)
            let toks = tokens(f, nd, &mut Sugar::default());
            remember(ctx, f, &toks.concat());
        }
    }
    if let Some(w) = verdict {
        let small = shrink_nd(nd, &mut |c| value_failure(f, c, variant).is_some(), 300);
        let w2 = value_failure(f, &small, variant).unwrap_or(w);
        ctx.report.violate(
            format!("C03|{}|{}", f.name(), small.canon()),
            format!("[{}] {}", f.name(), w2),
            J::obj().set("kind", "value").set("format", f.name()).set("value", small.to_json()).set("variant", variant).set("why", w2.clone()),
        );
    }
}

/// exhaustive vocabulary sweep: each connecter, copula (13), prefix, set bracket, punctuation, stamp
/// form, minimal and nested, through both pipelines
fn vocabulary_sweep(f: Fmt) -> Vec<ND> {
    let a = || TD::word("A");
    let b = || TD::word("B");
    let mut terms: Vec<TD> = vec![];
    for k in ALL_KINDS {
        let t = match k.shape() {
            Shape::AtomNamed => TD::atom(k, "x1"),
            Shape::AtomPlaceholder => TD::placeholder(),
            Shape::AtomInterval => TD::interval(5),
            Shape::Unary => TD::comp(k, vec![a()]),
            Shape::BinOrd | Shape::BinSym => TD::bin(k, a(), b()),
            Shape::VecN | Shape::SetN => TD::comp(k, vec![a(), b()]),
            Shape::Image => TD::image(k, 1, vec![a(), b()]),
        };
        terms.push(t);
    }
    // derived-copula shapes
    terms.push(TD::bin(Kind::Inh, TD::comp(Kind::SetExt, vec![a()]), b()));
    terms.push(TD::bin(Kind::Inh, a(), TD::comp(Kind::SetInt, vec![b()])));
    terms.push(TD::bin(Kind::Inh, TD::comp(Kind::SetExt, vec![a()]), TD::comp(Kind::SetInt, vec![b()])));
    let nested: Vec<TD> = terms.iter().filter(|t| t.k != Kind::Placeholder).map(|t| TD::comp(Kind::Product, vec![TD::bin(Kind::Impl, t.clone(), TD::comp(Kind::SetExt, vec![t.clone()]))])).collect();
    terms.extend(nested);
    let mut out: Vec<ND> = terms.iter().cloned().map(ND::Term).collect();
    let _ = f;
    for (i, t) in terms.iter().enumerate() {
        for p in ALL_PUNCT {
            for st in [StampD::Eternal, StampD::Past, StampD::Present, StampD::Future, StampD::Fixed(0), StampD::Fixed(-7), StampD::Fixed(isize::MAX)] {
                if (i + st.canon().len()) % 3 != 0 && st != StampD::Eternal {
                    continue;
                }
                let truth = if p.has_truth() { vec![1.0, 0.9][..(i % 3).min(2)].to_vec() } else { vec![] };
                let s = SD { term: t.clone(), punct: p, stamp: st, truth };
                out.push(ND::Sent(s.clone()));
                out.push(ND::Task(KD { sent: s, budget: vec![0.5, 0.75, 0.4][..i % 4 % 4 % 4].iter().take(3).cloned().collect() }));
            }
        }
    }
    out
}

pub fn run(ctx: &mut Ctx) {
    let mut idx = 0usize;
    // many threads at once (two per core) on values / strings that hold alone
    if ctx.shard < 4 {
        let base = base_atoms(&["A", "B"]);
        let mut cases: Vec<(Fmt, ND)> = vec![];
        for f in ALL_FMT {
            let pick = universe_over(&base, 2, false);
            let step = (pick.len() / 40).max(1);
            cases.extend(pick.into_iter().step_by(step).take(40).enumerate().map(|(i, t)| (f, wrap_rotating(t, i + ctx.shard))));
        }
        let rounds = if ctx.thorough { 60 } else { 6 };
        concurrent_family(ctx, "C03", "enum parse vs lexical parse + fold", cases, rounds, |c| value_failure(c.0, &c.1, 0));
    }

    for f in ALL_FMT {
        for nd in vocabulary_sweep(f) {
            idx += 1;
            if ctx.mine(idx) {
                check_value(ctx, f, &nd, idx as u64, "vocabulary-sweep");
            }
        }
        // adversarial names (fixed enumeration; shared with C01)
        for nd in super::c01::adversarial_cases(f) {
            idx += 1;
            if ctx.mine(idx) {
                check_value(ctx, f, &nd, 0, "adversarial-names");
            }
        }
    }
    // extreme sizes (on a thread with a large stack; not shrunk)
    for f in ALL_FMT {
        for (ci, (label, t)) in extreme_cases().into_iter().enumerate() {
            idx += 1;
            if !ctx.mine(idx) {
                continue;
            }
            let nd = wrap_rotating(t, ci);
            ctx.report.eval();
            ctx.report.bump("family.extreme-sizes");
            ctx.report.nontrivial(&format!("{}|extreme|{}|{}", f.name(), label, ci % 3));
            match on_big_stack(move || value_failure(f, &nd, 0)) {
                Some(None) => {}
                Some(Some(w)) => ctx.report.violate(
                    format!("C03|{}|extreme|{}", f.name(), label),
                    format!("[{}] extreme case {}: {}", f.name(), label, w.chars().take(300).collect::<String>()),
                    J::obj().set("kind", "extreme").set("format", f.name()).set("extreme", label.as_str()).set("wrap", ci as u64),
                ),
                None => ctx.report.violate(format!("C03|{}|extreme-crash|{}", f.name(), label), format!("[{}] the thread handling {} died", f.name(), label), J::obj().set("kind", "extreme").set("format", f.name()).set("extreme", label.as_str()).set("wrap", ci as u64)),
            }
        }
    }
    ctx.report.note("exhaustive_subspaces", J::Arr(vec![J::from("vocabulary x format: every constructor / derived copula / punctuation / stamp form, minimal and nested, through both pipelines")]));
    let mut rng = ctx.rng(0xC03);
    let n = ctx.share(500_000, 10_000_000);
    for i in 0..n {
        if ctx.out_of_time() {
            ctx.report.inconclusive.push(format!("random workload cut at {} of {}", i, n));
            break;
        }
        let f = ALL_FMT[(i % 3) as usize];
        if i % 4 == 3 {
            // strings from the lexical formatter over arity-valid lexical values
            let lg = LexGen::new(f, true);
            let d__ = 1 + rng.below(4);
            let x = lg.narsese(&mut rng, d__);
            let s = f.l().format_narsese(&x);
            ctx.report.eval();
            ctx.report.bump("family.lexical-formatter-strings");
            ctx.report.nontrivial(&format!("{}|{}", f.name(), s));
            // arity-valid lexical values may still be rejected by both pipelines for semantic reasons
            // (e.g. an interval name); only disagreement counts here
            if let Some(w) = string_failure(f, &s, false) {
                ctx.report.violate(
                    format!("C03|{}|string|{}", f.name(), s),
                    format!("[{}] {}", f.name(), w),
                    J::obj().set("kind", "string").set("format", f.name()).set("input", s.clone()).set("why", w.clone()),
                );
            }
        } else {
            let names = safe_names(f);
            let g = Gen { names: &names, max_depth: 6, max_arity: 4, placeholders: true, set_bias: false };
            let d__ = 1 + rng.below(5);
            let nd = g.narsese(&mut rng, d__);
            let v = rng.next_u64();
            check_value(ctx, f, &nd, v, "random-enum-values");
        }
    }
    ctx.report.note(
        "rule",
        "a case = one well-formed surface string (enum-formatter output, the same value written with derived copulas, or lexical-formatter output) through both pipelines; non-trivial = not a bare atom; distinct = distinct (format, canonical form / string)",
    );
}

pub fn replay(ctx: &mut Ctx, d: &J) -> Option<()> {
    let f = fmt_of(d)?;
    match jstr(d, "kind")?.as_str() {
        "extreme" => {
            let label = jstr(d, "extreme")?;
            let nd = wrap_rotating(extreme_from_label(&label)?, d.get("wrap")?.as_i128()? as usize);
            match on_big_stack(move || value_failure(f, &nd, 0)) {
                Some(None) => {}
                Some(Some(w)) => ctx.report.violate(format!("C03|{}|extreme|{}", f.name(), label), w, d.clone()),
                None => ctx.report.violate(format!("C03|{}|extreme-crash|{}", f.name(), label), "the thread died".into(), d.clone()),
            }
        }
        "batch" => {
            let inputs: Vec<String> = d.get("inputs")?.as_arr()?.iter().filter_map(|x| x.as_str().map(|s| s.to_string())).collect();
            if let Some((_, w)) = batch_failure(f, &inputs) {
                ctx.report.violate(format!("C03|{}|batch", f.name()), w, d.clone());
            }
        }
        "string" => {
            let s = jstr(d, "input")?;
            if let Some(w) = string_failure(f, &s, false) {
                ctx.report.violate(format!("C03|{}|string|{}", f.name(), s), w, d.clone());
            }
        }
        _ => {
            let nd = nd_from_json(d.get("value")?)?;
            let variant = d.get("variant").and_then(|v| v.as_i128()).unwrap_or(0) as u64;
            if let Some(w) = value_failure(f, &nd, variant) {
                ctx.report.violate(format!("C03|{}|{}", f.name(), nd.canon()), w, d.clone());
            }
        }
    }
    Some(())
}
