//! C10 — derived copulas and surface sugar mean what the documentation says.
//!
//! The expected value is the description itself (its canonical form): the *text* is written with
//! sugar by the harness's own renderer — `<S {-- P>` for `<{S} --> P>`, `<S --] P>` for `<S --> [P]>`,
//! `<S {-] P>` for both, `<P <\> S>` for `<S </> P>`, images as connecter + components with the
//! placeholder at its index, `+0007` for interval 7, `_x` for the placeholder — and both pipelines
//! must return exactly that value, for the sugared and for the desugared text.  In two of five sugar
//! variants the derived copulas, image connecters and placeholder / interval prefixes are spelled from
//! the harness's own pinned copy of the documented vocabulary (`surface::PINNED`), not from the table
//! the parsers themselves read, so a change of the table that keeps both pipelines consistent with
//! each other still shows.

use super::common::*;
use crate::desc::*;
use crate::json::J;
use crate::names::*;
use crate::rng::Rng;
use crate::shrink::shrink_term;
use crate::surface::*;
use crate::Ctx;

fn sugar_for(variant: u64) -> Sugar {
    Sugar {
        derived_copulas: true,
        retrospective: true,
        interval_pad: [0usize, 3, 1, 17, 30, 64][(variant % 6) as usize],
        placeholder_suffix: ["", "x", "123", "_", "abc-d"][((variant / 4) % 5) as usize].to_string(),
        coin: if variant % 3 == 0 { None } else { Some(variant.wrapping_mul(0x9E37_79B9_7F4A_7C15) | 1) },
        // two of every five variants spell the sugar with the harness's pinned copy of the documented vocabulary
        pinned: variant % 5 < 2,
    }
}

/// plant sugar opportunities into a random term: wrap operands of inheritances in singleton sets
pub fn plant(t: &TD, rng: &mut Rng) -> TD {
    let kids: Vec<TD> = t.kids.iter().map(|k| plant(k, rng)).collect();
    let mut c = TD { k: t.k, name: t.name.clone(), num: t.num, kids };
    if c.k == Kind::Inh {
        match rng.below(4) {
            0 => c.kids[0] = TD::comp(Kind::SetExt, vec![c.kids[0].clone()]),
            1 => c.kids[1] = TD::comp(Kind::SetInt, vec![c.kids[1].clone()]),
            2 => {
                c.kids[0] = TD::comp(Kind::SetExt, vec![c.kids[0].clone()]);
                c.kids[1] = TD::comp(Kind::SetInt, vec![c.kids[1].clone()]);
            }
            _ => {}
        }
    }
    c
}

pub fn failure(f: Fmt, t: &TD, variant: u64) -> Option<String> {
    let want = format!("T<{}>", t.canon());
    let nd = ND::Term(t.clone());
    let sugared = tokens(f, &nd, &mut sugar_for(variant));
    let plain = tokens(f, &nd, &mut Sugar::default());
    let e = f.e();
    let sep = format!("{}{}", "", e.space.format_terms);
    // join with the format's own default spacing (a space between tokens is always legal, C09 owns the rest)
    let join = |toks: &[String]| -> String { toks.join(if sep.is_empty() { "" } else { " " }) };
    for (label, toks) in [("sugared", &sugared), ("desugared", &plain)] {
        let text = join(toks);
        for (pname, out) in [("enum parser", enum_parse(f, &text)), ("lexical parser + fold", lex_fold_parse(f, &text))] {
            match out {
                Out::Ok(c) if c == want => {}
                Out::Ok(c) => return Some(format!("{} text {:?} through the {} = {} (documented meaning {})", label, text, pname, c, want)),
                o => return Some(format!("{} text {:?} through the {} = {}", label, text, pname, o.short())),
            }
        }
    }
    // the batch entry point: the sugared text after a near-duplicate of itself in which one interval /
    // suffixed-placeholder token is split by a blank (`+12` -> `+1 2`, `_b` -> `_ b`: other tokens, other
    // meaning or none) must still mean what it means alone
    let (ip, pp) = (e.atom.prefix_interval, e.atom.prefix_placeholder);
    let split: Vec<String> = sugared
        .iter()
        .map(|tok| {
            let cs: Vec<char> = tok.chars().collect();
            for p in [ip, pp] {
                let pl = p.chars().count();
                if !p.is_empty() && tok.starts_with(p) && cs.len() >= pl + 2 - (p == pp) as usize && cs.len() > pl {
                    let cut = if p == pp { pl } else { pl + 1 };
                    if cut < cs.len() {
                        return format!("{} {}", cs[..cut].iter().collect::<String>(), cs[cut..].iter().collect::<String>());
                    }
                }
            }
            tok.clone()
        })
        .collect();
    if split != sugared {
        let batch = vec![join(&split), join(&sugared), join(&plain)];
        let r = crate::guard::observe(|| {
            let mut joined = String::new();
            parse_multi_any(e, &batch, &mut joined).into_iter().map(|r| r.map(|v| canon_real_narsese(&v)).ok()).collect::<Vec<_>>()
        });
        match r {
            crate::guard::Obs::Ret(rs) => {
                for i in 1..3 {
                    if rs.get(i).cloned().flatten().as_deref() != Some(want.as_str()) {
                        return Some(format!("{:?} at position {} of the parse_multi batch {:?} = {:?} (documented meaning {})", batch[i], i, batch, rs.get(i), want));
                    }
                }
            }
            crate::guard::Obs::Panic(p) => return Some(format!("parse_multi panicked on {:?}: {}", batch, p)),
        }
    }
    None
}

fn check(ctx: &mut Ctx, f: Fmt, t: &TD, variant: u64, family: &str) {
    ctx.report.eval();
    ctx.report.bump(&format!("family.{}", family));
    ctx.report.bump(&format!("format.{}", f.name()));
    let nd = ND::Term(t.clone());
    let sug = tokens(f, &nd, &mut sugar_for(variant));
    let plain = tokens(f, &nd, &mut Sugar::default());
    if sug != plain {
        ctx.report.nontrivial(&format!("{}|{}|{}", f.name(), variant % 60, t.canon()));
        let st = &f.e().statement;
        for (k, c) in [
            ("instance", st.copula_instance),
            ("property", st.copula_property),
            ("instance-property", st.copula_instance_property),
            ("retrospective-equivalence", st.copula_equivalence_retrospective),
        ] {
            if sug.iter().any(|x| x == c) {
                ctx.report.bump(&format!("sugar.{}", k));
            }
        }
    }
    ctx.report.sample(|| J::obj().set("format", f.name()).set("sugared", sug.join(" ")).set("meaning", t.canon()));
    if let Some(w) = failure(f, t, variant) {
        let small = shrink_term(t, &mut |c| failure(f, c, variant).is_some(), 300);
        let w2 = failure(f, &small, variant).unwrap_or(w);
        ctx.report.violate(
            format!("C10|{}|{}|{}", f.name(), small.canon(), variant % 60),
            format!("[{}] {}", f.name(), w2),
            J::obj().set("format", f.name()).set("term", small.to_json()).set("variant", variant).set("why", w2.clone()),
        );
    }
}

/// sugar that can only be written as a *string literal* of the inline macros (it contains a
/// backslash), compiled into the harness: (source, enum value, lexical value folded, documented meaning)
#[allow(clippy::type_complexity)]
fn literal_sugar_macros() -> Vec<(&'static str, Box<dyn Fn() -> narsese::enum_narsese::Narsese>, Box<dyn Fn() -> narsese::lexical::Narsese>, &'static str)> {
    use narsese::enum_nse as e;
    use narsese::lexical_nse as l;
    vec![
        ("\"<S <\\\\> P>\"", Box::new(|| e!("<S <\\> P>")), Box::new(|| l!("<S <\\> P>")), "T<EquivPred(W\"P\",W\"S\")>"),
        ("r\"<S <\\> P>\"", Box::new(|| e!(r"<S <\> P>")), Box::new(|| l!(r"<S <\> P>")), "T<EquivPred(W\"P\",W\"S\")>"),
        ("\"(\\\\, a, _, b)\"", Box::new(|| e!("(\\, a, _, b)")), Box::new(|| l!("(\\, a, _, b)")), "T<ImgInt@1(W\"a\",W\"b\")>"),
        ("r\"(\\, a, b, _)\"", Box::new(|| e!(r"(\, a, b, _)")), Box::new(|| l!(r"(\, a, b, _)")), "T<ImgInt@2(W\"a\",W\"b\")>"),
        ("\"<S =\\\\> P>.\"", Box::new(|| e!("<S =\\> P>.")), Box::new(|| l!("<S =\\> P>.")), "S<ImplRetro(W\"S\",W\"P\")|.|eternal|[]>"),
        ("\"<S {-- P>\"", Box::new(|| e!("<S {-- P>")), Box::new(|| l!("<S {-- P>")), "T<Inh(SetExt{W\"S\"},W\"P\")>"),
        ("\"<S --] P>\"", Box::new(|| e!("<S --] P>")), Box::new(|| l!("<S --] P>")), "T<Inh(W\"S\",SetInt{W\"P\"})>"),
        ("\"<S {-] P>\"", Box::new(|| e!("<S {-] P>")), Box::new(|| l!("<S {-] P>")), "T<Inh(SetExt{W\"S\"},SetInt{W\"P\"})>"),
        ("\"(/, a, _x, b)\"", Box::new(|| e!("(/, a, _x, b)")), Box::new(|| l!("(/, a, _x, b)")), "T<ImgExt@1(W\"a\",W\"b\")>"),
        ("\"(&/, a, +0007, b)\"", Box::new(|| e!("(&/, a, +0007, b)")), Box::new(|| l!("(&/, a, +0007, b)")), "T<Seq(W\"a\",+7,W\"b\")>"),
    ]
}

pub fn run(ctx: &mut Ctx) {
    let mut idx = 0usize;
    // (0) literal macro invocations with sugar (shard 0 only; fixed)
    if ctx.shard == 0 {
        use narsese::conversion::inter_type::lexical_fold::TryFoldInto;
        for (src, ev, lv, want) in literal_sugar_macros() {
            ctx.report.eval();
            ctx.report.bump("family.literal-macro-invocations");
            let a = match crate::guard::observe(|| canon_real_narsese(&ev())) {
                crate::guard::Obs::Ret(c) => c,
                crate::guard::Obs::Panic(p) => format!("PANIC({})", p.chars().take(120).collect::<String>()),
            };
            let b = match crate::guard::observe(|| lv().try_fold_into(Fmt::Ascii.e()).map(|v: narsese::enum_narsese::Narsese| canon_real_narsese(&v)).map_err(|e| format!("{:?}", e))) {
                crate::guard::Obs::Ret(Ok(c)) => c,
                crate::guard::Obs::Ret(Err(e)) => format!("Err({})", e),
                crate::guard::Obs::Panic(p) => format!("PANIC({})", p.chars().take(120).collect::<String>()),
            };
            for (which, got) in [("enum_nse!", a), ("lexical_nse! + fold", b)] {
                if got != want {
                    ctx.report.violate(
                        format!("C10|literal-macro|{}|{}", which, src),
                        format!("{}({}) = {} (documented meaning {})", which, src, got, want),
                        J::obj().set("kind", "literal-macro").set("format", "ascii").set("literal", src),
                    );
                }
            }
        }
    }
    // (0b) a very large batch (one worker): 42 000 lines of a 101-term product - 4.2 million terms in one
    // `parse_multi` call - followed by the sugared spellings, which must still mean what they mean
    if ctx.shard == 2 % ctx.nshards {
        let line = format!("(*, {})", (0..100).map(|i| format!("w{}", i % 10)).collect::<Vec<_>>().join(", "));
        let sugar: Vec<(&str, &str)> = vec![
            ("<S {-- P>", "T<Inh(SetExt{W\"S\"},W\"P\")>"),
            ("<S --] P>", "T<Inh(W\"S\",SetInt{W\"P\"})>"),
            ("<S {-] P>", "T<Inh(SetExt{W\"S\"},SetInt{W\"P\"})>"),
            ("<S <\\> P>", "T<EquivPred(W\"P\",W\"S\")>"),
            ("(/, a, _, b)", "T<ImgExt@1(W\"a\",W\"b\")>"),
            ("+0007", "T<+7>"),
        ];
        ctx.report.eval();
        ctx.report.bump("family.one-batch-of-4.2-million-terms");
        let r = crate::guard::observe(|| {
            let n = 42_000usize;
            let rs = Fmt::Ascii.e().parse_multi((0..n).map(|_| line.as_str()).chain(sugar.iter().map(|(s, _)| *s)));
            let mut bad = None;
            for (i, (src, want)) in sugar.iter().enumerate() {
                let got = match rs.get(n + i) {
                    Some(Ok(v)) => canon_real_narsese(v),
                    Some(Err(e)) => format!("Err({})", e.to_string().chars().take(80).collect::<String>()),
                    None => "nothing".to_string(),
                };
                if got != *want {
                    bad = Some(format!("{:?} after {} lines of 101 terms in the same parse_multi call = {} (documented meaning {})", src, n, got, want));
                    break;
                }
            }
            if bad.is_none() && !matches!(rs.get(n - 1), Some(Ok(_))) {
                bad = Some(format!("line {} of the batch does not parse", n - 1));
            }
            bad
        });
        let why = match r {
            crate::guard::Obs::Ret(x) => x,
            crate::guard::Obs::Panic(p) => Some(format!("parse_multi panicked: {}", p)),
        };
        if let Some(w) = why {
            ctx.report.violate("C10|big-batch".into(), w, J::obj().set("kind", "big-batch").set("format", "ascii").set("big_batch", 42_000u64));
        }
    }
    // (1) fixed family: every derived copula with every operand shape; images of length 1..6 with the
    // placeholder at every position (and later placeholders as plain components); intervals
    for f in ALL_FMT {
        let ops: Vec<TD> = vec![
            TD::word("S"),
            TD::atom(Kind::IVar, "x"),
            TD::comp(Kind::SetExt, vec![TD::word("a")]),
            TD::comp(Kind::SetExt, vec![TD::word("a"), TD::word("b")]),
            TD::comp(Kind::SetInt, vec![TD::word("p")]),
            TD::comp(Kind::SetInt, vec![TD::word("p"), TD::word("q")]),
            TD::comp(Kind::Product, vec![TD::word("a"), TD::word("b")]),
            TD::bin(Kind::Inh, TD::comp(Kind::SetExt, vec![TD::word("i")]), TD::word("j")),
            TD::bin(Kind::EquivPred, TD::word("u"), TD::word("v")),
            TD::interval(7),
            TD::image(Kind::ImgExt, 1, vec![TD::word("r"), TD::word("s")]),
        ];
        let mut fixed: Vec<TD> = vec![];
        for s in &ops {
            for p in &ops {
                fixed.push(TD::bin(Kind::Inh, TD::comp(Kind::SetExt, vec![s.clone()]), p.clone()));
                fixed.push(TD::bin(Kind::Inh, s.clone(), TD::comp(Kind::SetInt, vec![p.clone()])));
                fixed.push(TD::bin(Kind::Inh, TD::comp(Kind::SetExt, vec![s.clone()]), TD::comp(Kind::SetInt, vec![p.clone()])));
                fixed.push(TD::bin(Kind::EquivPred, s.clone(), p.clone()));
            }
        }
        for k in IMG_KINDS {
            for n in 1..=6usize {
                let kids: Vec<TD> = (0..n).map(|i| TD::word(["a", "b", "c", "d", "e", "g"][i])).collect();
                for i in 0..=n {
                    fixed.push(TD::image(k, i, kids.clone()));
                    // a later placeholder stays an ordinary component
                    if i < n {
                        let mut k2 = kids.clone();
                        k2[n - 1] = TD::placeholder();
                        if i < n - 1 || n == 1 {
                            if n > 1 {
                                fixed.push(TD::image(k, i, k2));
                            }
                        }
                    }
                }
            }
        }
        for v in [0usize, 7, 42, usize::MAX, usize::MAX - 1, (1 << 53) + 1, 86_400_000_000_000_001, 1 << 32, 9_007_199_254_740_993] {
            fixed.push(TD::interval(v));
            fixed.push(TD::comp(Kind::ConjSeq, vec![TD::word("a"), TD::interval(v), TD::word("b")]));
        }
        fixed.push(TD::placeholder());
        fixed.push(TD::comp(Kind::Product, vec![TD::placeholder(), TD::word("a")]));
        for (i, t) in fixed.iter().enumerate() {
            for variant in 0..20u64 {
                idx += 1;
                if ctx.mine(idx) {
                    check(ctx, f, t, variant + (i as u64) * 20, "fixed-sugar-family");
                }
            }
        }
    }
    // (2) random operand terms with planted opportunities
    let mut rng = ctx.rng(0xC10);
    let n = ctx.share(500_000, 10_000_000);
    for i in 0..n {
        if ctx.out_of_time() {
            ctx.report.inconclusive.push(format!("random workload cut at {} of {}", i, n));
            break;
        }
        let f = ALL_FMT[(i % 3) as usize];
        let names = safe_names(f);
        let g = Gen { names: &names, max_depth: 6, max_arity: 4, placeholders: false, set_bias: false };
        let d__ = 2 + rng.below(4);
        let raw = g.term_x(&mut rng, d__);
        let t = plant(&raw, &mut rng);
        let variant = rng.next_u64();
        check(ctx, f, &t, variant, "random-planted");
    }
    ctx.report.note(
        "rule",
        "a case = (format, term description, sugar variant): the sugared and the desugared text through both pipelines must equal the description; non-trivial = the sugared token list differs from the plain one; distinct = distinct (format, canonical form, sugar variant class)",
    );
}

pub fn replay(ctx: &mut Ctx, d: &J) -> Option<()> {
    if d.get("literal").is_some() || d.get("big_batch").is_some() {
        super::rerun_fixed(ctx);
        return Some(());
    }
    let f = fmt_of(d)?;
    let t = TD::from_json(d.get("term")?)?;
    let variant = d.get("variant")?.as_i128()? as u64;
    if let Some(w) = failure(f, &t, variant) {
        ctx.report.violate(format!("C10|{}|{}", f.name(), t.canon()), w, d.clone());
    }
    Some(())
}
