//! C09 — whitespace between tokens never changes what is parsed.

use super::common::*;
use crate::desc::*;
use crate::guard::{observe, panic_site, Obs};
use crate::json::J;
use crate::names::*;
use crate::rng::Rng;
use crate::shrink::shrink_nd;
use crate::surface::*;
use crate::Ctx;
use narsese::conversion::inter_type::lexical_fold::TryFoldInto;
use narsese::enum_narsese::Narsese;

const WS_CHARS: [char; 25] = [
    ' ', '\t', '\n', '\r', '\u{b}', '\u{c}', '\u{85}', '\u{a0}', '\u{1680}', '\u{2000}', '\u{2001}', '\u{2002}', '\u{2003}', '\u{2004}', '\u{2005}',
    '\u{2006}', '\u{2007}', '\u{2008}', '\u{2009}', '\u{200a}', '\u{2028}', '\u{2029}', '\u{202f}', '\u{205f}', '\u{3000}',
];

/// the run-time body of `enum_nse!`: strip every whitespace char, then parse_chars with FORMAT_ASCII
fn macro_body_enum(text: &str) -> Out {
    let chars: Vec<char> = text.chars().filter(|c| !c.is_whitespace()).collect();
    match observe(|| Fmt::Ascii.e().parse_chars::<Narsese>(chars).map(|v| canon_real_narsese(&v)).map_err(|e| e.to_string())) {
        Obs::Ret(Ok(c)) => Out::Ok(c),
        Obs::Ret(Err(e)) => Out::Err(e),
        Obs::Panic(p) => Out::Panic(p),
    }
}
/// the run-time body of `lexical_nse!` followed by fold
fn macro_body_lexical(text: &str) -> Out {
    match observe(|| -> Result<String, String> {
        let lx = narsese::conversion::string::impl_lexical::parse(Fmt::Ascii.l(), text).map_err(|e| e.to_string())?;
        let v: Narsese = lx.try_fold_into(Fmt::Ascii.e()).map_err(|e| format!("{:?}", e))?;
        Ok(canon_real_narsese(&v))
    }) {
        Obs::Ret(Ok(c)) => Out::Ok(c),
        Obs::Ret(Err(e)) => Out::Err(e),
        Obs::Panic(p) => Out::Panic(p),
    }
}

/// which pipelines are run on a spaced string
#[derive(Clone, Copy, PartialEq, Debug)]
pub enum Pipe {
    Enum,
    LexFold,
    MacroEnum,
    MacroLex,
    /// the lexical `parse_term` entry (bare terms only) + fold
    LexTermFold,
}
impl Pipe {
    fn name(self) -> &'static str {
        match self {
            Pipe::Enum => "enum-parser",
            Pipe::LexFold => "lexical-parser+fold",
            Pipe::MacroEnum => "enum_nse!-body",
            Pipe::MacroLex => "lexical_nse!-body+fold",
            Pipe::LexTermFold => "lexical-parse_term+fold",
        }
    }
    fn from(s: &str) -> Pipe {
        match s {
            "lexical-parser+fold" => Pipe::LexFold,
            "enum_nse!-body" => Pipe::MacroEnum,
            "lexical_nse!-body+fold" => Pipe::MacroLex,
            "lexical-parse_term+fold" => Pipe::LexTermFold,
            _ => Pipe::Enum,
        }
    }
    fn run(self, f: Fmt, s: &str) -> Out {
        match self {
            Pipe::Enum => enum_parse(f, s),
            Pipe::LexFold => lex_fold_parse(f, s),
            Pipe::MacroEnum => macro_body_enum(s),
            Pipe::MacroLex => macro_body_lexical(s),
            Pipe::LexTermFold => lex_term_fold_parse(f, s),
        }
    }
}

/// Some(why) if `text` does not parse to `want` through `pipe`
fn text_failure(f: Fmt, pipe: Pipe, text: &str, want: &str) -> Option<String> {
    match pipe.run(f, text) {
        Out::Ok(c) if c == want => None,
        Out::Ok(c) => Some(format!("{} of {:?} = {} (expected {})", pipe.name(), text, c, want)),
        Out::Err(e) => Some(format!("{} of {:?} = Err({})", pipe.name(), text, e)),
        Out::Panic(p) => Some(format!("{} of {:?} panicked at {}", pipe.name(), text, panic_site(&p))),
    }
}

/// spacing described compactly for replays: per boundary the number of whitespace chars, and the char
/// half of the spacing seeds write the value with the derived copulas (same meaning, other tokens)
fn sugar_of(seed: u64) -> Sugar {
    if seed % 2 == 1 {
        Sugar { derived_copulas: true, retrospective: true, interval_pad: 0, placeholder_suffix: String::new(), coin: if seed % 4 == 1 { None } else { Some(seed | 1) }, pinned: false }
    } else {
        Sugar::default()
    }
}

fn failure_with(f: Fmt, nd: &ND, spacing_kind: &str, seed: u64) -> Option<(Pipe, String, String)> {
    let toks = tokens(f, nd, &mut sugar_of(seed));
    let want = nd.canon();
    let n = toks.len();
    let mut rng = Rng::new(seed);
    let (spacing, ws): (Vec<usize>, String) = match spacing_kind {
        "none" => (vec![0; n + 1], " ".into()),
        "one-everywhere" => (vec![1; n + 1], " ".into()),
        "inner-one" => {
            let mut v = vec![1; n + 1];
            v[0] = 0;
            v[n] = 0;
            (v, " ".into())
        }
        "random" => (random_spacing(n, &mut rng, 3), " ".into()),
        k if k.starts_with("bits:") => {
            let bits: u64 = k[5..].parse().unwrap_or(0);
            let mut v = vec![0; n + 1];
            for i in 0..=n {
                if i < 64 && (bits >> i) & 1 == 1 {
                    v[i] = 1;
                }
            }
            (v, " ".into())
        }
        k if k.starts_with("unicode:") => {
            let idx: usize = k[8..].parse().unwrap_or(0);
            (random_spacing(n, &mut rng, 2), WS_CHARS[idx % WS_CHARS.len()].to_string())
        }
        _ => (vec![0; n + 1], " ".into()),
    };
    let text = render(&toks, &spacing, &ws);
    let pipes: &[Pipe] = if ws == " " {
        if f == Fmt::Ascii {
            &[Pipe::Enum, Pipe::LexFold, Pipe::MacroEnum, Pipe::MacroLex]
        } else {
            &[Pipe::Enum, Pipe::LexFold]
        }
    } else if f == Fmt::Ascii {
        &[Pipe::LexFold, Pipe::MacroEnum, Pipe::MacroLex]
    } else {
        &[Pipe::LexFold]
    };
    for p in pipes {
        if let Some(w) = text_failure(f, *p, &text, &want) {
            return Some((*p, text, w));
        }
    }
    if matches!(nd, ND::Term(_)) {
        if let Some(w) = text_failure(f, Pipe::LexTermFold, &text, &want) {
            return Some((Pipe::LexTermFold, text, w));
        }
    }
    None
}

/// lexical parser only: whitespace inserted anywhere, also inside tokens
fn inside_failure(f: Fmt, nd: &ND, seed: u64) -> Option<(Pipe, String, String)> {
    let toks = tokens(f, nd, &mut sugar_of(seed));
    let want = nd.canon();
    let mut rng = Rng::new(seed);
    let compact: Vec<char> = toks.concat().chars().collect();
    let mut text = String::new();
    for c in compact {
        if rng.chance(1, 5) {
            for _ in 0..rng.range(1, 2) {
                text.push(*rng.pick(&WS_CHARS));
            }
        }
        text.push(c);
    }
    if rng.chance(1, 2) {
        text.push(*rng.pick(&WS_CHARS));
    }
    if matches!(nd, ND::Term(_)) {
        if let Some(w) = text_failure(f, Pipe::LexTermFold, &text, &want) {
            return Some((Pipe::LexTermFold, text, w));
        }
    }
    text_failure(f, Pipe::LexFold, &text, &want).map(|w| (Pipe::LexFold, text, w))
}

/// one spacing case; a kind `after:<format>|<kind>` runs the case as the first work of a freshly
/// spawned thread that has only done a little work in `<format>` before (`after:none|..`: nothing)
fn case_failure(f: Fmt, nd: &ND, kind: &str, seed: u64) -> Option<(Pipe, String, String)> {
    if let Some(rest) = kind.strip_prefix("after:") {
        let (g, base) = rest.split_once('|')?;
        let (g, base, nd2) = (Fmt::from_name(g), base.to_string(), nd.clone());
        return on_fresh_thread(g, move || case_failure(f, &nd2, &base, seed)).flatten();
    }
    if kind == "inside-tokens" {
        inside_failure(f, nd, seed)
    } else {
        failure_with(f, nd, kind, seed)
    }
}

/// several spacings of one value as ONE parse_multi batch (compact first, so that anything the
/// reused state remembers about blanks in the first input would show on the later ones)
fn multi_failure(f: Fmt, nd: &ND, seed: u64) -> Option<(String, String)> {
    let toks = tokens(f, nd, &mut sugar_of(seed));
    let want = nd.canon();
    let n = toks.len();
    let mut rng = Rng::new(seed ^ 0xABCD);
    let texts: Vec<String> = vec![
        render(&toks, &vec![0; n + 1], " "),
        render(&toks, &vec![1; n + 1], " "),
        render(&toks, &random_spacing(n, &mut rng, 3), " "),
        render(&toks, &vec![0; n + 1], " "),
        render(&toks, &random_spacing(n, &mut rng, 10), " "),
    ];
    let r = observe(|| {
        f.e()
            .parse_multi(texts.iter().map(|s| s.as_str()))
            .into_iter()
            .map(|r| r.map(|v| canon_real_narsese(&v)).map_err(|e| e.to_string()))
            .collect::<Vec<_>>()
    });
    match r {
        Obs::Ret(rs) => {
            for (i, r) in rs.iter().enumerate() {
                match r {
                    Ok(c) if *c == want => {}
                    Ok(c) => return Some((texts[i].clone(), format!("parse_multi position {} ({:?}) = {} (expected {}) in batch {:?}", i, texts[i], c, want, texts))),
                    Err(e) => return Some((texts[i].clone(), format!("parse_multi position {} ({:?}) = Err({}) in batch {:?}", i, texts[i], e, texts))),
                }
            }
            None
        }
        Obs::Panic(p) => Some((texts[0].clone(), format!("parse_multi panicked at {} on batch {:?}", panic_site(&p), texts))),
    }
}

fn check_multi(ctx: &mut Ctx, f: Fmt, nd: &ND, seed: u64) {
    ctx.report.eval();
    ctx.report.bump("spacing.parse_multi-batch");
    if let Some((_, why)) = multi_failure(f, nd, seed) {
        let small = shrink_nd(nd, &mut |c| multi_failure(f, c, seed).is_some(), 200);
        let why2 = multi_failure(f, &small, seed).map(|x| x.1).unwrap_or(why);
        ctx.report.violate(
            format!("C09|{}|parse_multi|{}", f.name(), small.canon()),
            format!("[{}] {}", f.name(), why2),
            J::obj().set("format", f.name()).set("pipeline", "parse_multi").set("value", small.to_json()).set("spacing_seed", seed).set("why", why2.clone()),
        );
    }
}

fn check(ctx: &mut Ctx, f: Fmt, nd: &ND, kind: &str, seed: u64) {
    ctx.report.eval();
    ctx.report.bump(&format!("spacing.{}", if kind.starts_with("after:") { "first-work-of-a-fresh-thread" } else { kind.split(':').next().unwrap_or(kind) }));
    ctx.report.bump(&format!("format.{}", f.name()));
    // one case in 61 is repeated as the first work of a fresh thread that started in another format
    if !kind.starts_with("after:") && ctx.report.evaluations % 61 == 0 {
        let g = ["none", "ascii", "latex", "han"][((ctx.report.evaluations / 61) % 4) as usize];
        check(ctx, f, nd, &format!("after:{}|{}", g, kind), seed);
    }
    let r = case_failure(f, nd, kind, seed);
    if let Some((pipe, text, why)) = r {
        let k2 = kind.to_string();
        let small = shrink_nd(
            nd,
            &mut |c| {
                let r = case_failure(f, c, &k2, seed);
                matches!(r, Some((p, _, _)) if p == pipe)
            },
            250,
        );
        let (_, text2, why2) = case_failure(f, &small, kind, seed).unwrap_or((pipe, text, why));
        // signature: pipeline + value + the *shape* of the spacing (kind) – the exact text is in the detail
        ctx.report.violate(
            format!("C09|{}|{}|{}|{}", f.name(), pipe.name(), small.canon(), kind.split(':').next().unwrap_or(kind)),
            format!("[{}] {}", f.name(), why2),
            J::obj()
                .set("format", f.name())
                .set("pipeline", pipe.name())
                .set("value", small.to_json())
                .set("text", text2)
                .set("spacing", kind)
                .set("spacing_seed", seed)
                .set("why", why2.clone()),
        );
    }
}

/// literal macro invocations compiled into the harness (the macros strip whitespace before parsing)
#[allow(clippy::type_complexity)]
fn literal_macros() -> Vec<(&'static str, Box<dyn Fn() -> Narsese>, &'static str)> {
    use narsese::enum_nse as nse;
    vec![
        ("<A --> B>", Box::new(|| nse!(<A --> B>)), "T<Inh(W\"A\",W\"B\")>"),
        ("<A --> B>.", Box::new(|| nse!(<A --> B>.)), "S<Inh(W\"A\",W\"B\")|.|eternal|[]>"),
        ("<A-->B>.", Box::new(|| nse!("<A-->B>.")), "S<Inh(W\"A\",W\"B\")|.|eternal|[]>"),
        ("< A  -->  B > .", Box::new(|| nse!("< A  -->  B > .")), "S<Inh(W\"A\",W\"B\")|.|eternal|[]>"),
        ("(&&, A, B)", Box::new(|| nse!((&&, A, B))), "T<Conj{W\"A\",W\"B\"}>"),
        ("(&&,A,B)", Box::new(|| nse!("(&&,A,B)")), "T<Conj{W\"A\",W\"B\"}>"),
        ("( && , A , B )", Box::new(|| nse!("( && , A , B )")), "T<Conj{W\"A\",W\"B\"}>"),
        ("{A, B}", Box::new(|| nse!({A, B})), "T<SetExt{W\"A\",W\"B\"}>"),
        ("[A]", Box::new(|| nse!([A])), "T<SetInt{W\"A\"}>"),
        ("(--, A)", Box::new(|| nse!((--, A))), "T<Neg(W\"A\")>"),
        ("(/, R, _, B)", Box::new(|| nse!((/, R, _, B))), "T<ImgExt@1(W\"R\",W\"B\")>"),
        ("(*, A, B, C)", Box::new(|| nse!((*, A, B, C))), "T<Prod(W\"A\",W\"B\",W\"C\")>"),
        ("<A <-> B>?", Box::new(|| nse!(<A <-> B>?)), "S<Sim(W\"A\",W\"B\")|?|eternal|[]>"),
        ("<A ==> B>!", Box::new(|| nse!(<A ==> B>!)), "S<Impl(W\"A\",W\"B\")|!|eternal|[]>"),
        ("<A <=> B>@", Box::new(|| nse!(<A <=> B>@)), "S<Equiv(W\"A\",W\"B\")|@|eternal|[]>"),
        ("<bird --] flying>", Box::new(|| nse!("<bird --] flying>")), "T<Inh(W\"bird\",SetInt{W\"flying\"})>"),
        ("<tweety {-- bird>", Box::new(|| nse!("<tweety {-- bird>")), "T<Inh(SetExt{W\"tweety\"},W\"bird\")>"),
        ("<tweety {-] yellow>", Box::new(|| nse!("<tweety {-] yellow>")), "T<Inh(SetExt{W\"tweety\"},SetInt{W\"yellow\"})>"),
        ("<A =/> B>", Box::new(|| nse!(<A =/> B>)), "T<ImplPred(W\"A\",W\"B\")>"),
        ("<A =|> B>", Box::new(|| nse!(<A =|> B>)), "T<ImplConc(W\"A\",W\"B\")>"),
        ("<A </> B>", Box::new(|| nse!(<A </> B>)), "T<EquivPred(W\"A\",W\"B\")>"),
        ("<A <|> B>", Box::new(|| nse!(<A <|> B>)), "T<EquivConc(W\"A\",W\"B\")>"),
        ("<go-to --> op>.", Box::new(|| nse!("<go-to --> op>.")), "S<Inh(W\"go-to\",W\"op\")|.|eternal|[]>"),
        ("<A --> B>. :|:", Box::new(|| nse!("<A --> B>. :|:")), "S<Inh(W\"A\",W\"B\")|.|present|[]>"),
        ("<A --> B>. :!-5:", Box::new(|| nse!("<A --> B>. :!-5:")), "S<Inh(W\"A\",W\"B\")|.|fixed-5|[]>"),
        ("<A --> B>. : ! 5 :", Box::new(|| nse!("<A --> B>. : ! 5 :")), "S<Inh(W\"A\",W\"B\")|.|fixed5|[]>"),
        ("$0.5; 0.5; 0.5$ <A --> B>. %1.0; 0.9%", Box::new(|| nse!("$0.5; 0.5; 0.5$ <A --> B>. %1.0; 0.9%")), "K<S<Inh(W\"A\",W\"B\")|.|eternal|[3ff0000000000000,3feccccccccccccd]>|[3fe0000000000000,3fe0000000000000,3fe0000000000000]>"),
        ("$$ A.", Box::new(|| nse!("$$ A.")), "K<S<W\"A\"|.|eternal|[]>|[]>"),
        ("(&/, <A --> B>, +5, <C --> D>)", Box::new(|| nse!("(&/, <A --> B>, +5, <C --> D>)")), "T<Seq(Inh(W\"A\",W\"B\"),+5,Inh(W\"C\",W\"D\"))>"),
        ("<(*, $x, #y) --> ^op>", Box::new(|| nse!("<(*, $x, #y) --> ^op>")), "T<Inh(Prod($\"x\",#\"y\"),^\"op\")>"),
        // string literals with whitespace other than blanks (the macros strip *all* whitespace)
        ("<A\t-->\nB>.", Box::new(|| nse!("<A\t-->\nB>.")), "S<Inh(W\"A\",W\"B\")|.|eternal|[]>"),
        ("$0.5; 0.5; 0.5$\n            <A --> B>.\n            %1.0; 0.9%", Box::new(|| nse!("$0.5; 0.5; 0.5$
            <A --> B>.
            %1.0; 0.9%")), "K<S<Inh(W\"A\",W\"B\")|.|eternal|[3ff0000000000000,3feccccccccccccd]>|[3fe0000000000000,3fe0000000000000,3fe0000000000000]>"),
        ("(&&,\u{3000}A,\u{a0}B)\r\n", Box::new(|| nse!("(&&,\u{3000}A,\u{a0}B)\r\n")), "T<Conj{W\"A\",W\"B\"}>"),
        ("<A\t-->\tB>", Box::new(|| Narsese::Term(narsese::enum_nse_term!("<A\t-->\tB>"))), "T<Inh(W\"A\",W\"B\")>"),
        ("<A --> B>.\n", Box::new(|| Narsese::Sentence(narsese::enum_nse_sentence!("<A --> B>.\n"))), "S<Inh(W\"A\",W\"B\")|.|eternal|[]>"),
        ("$0.5$\n<A --> B>.\n:|:", Box::new(|| Narsese::Task(narsese::enum_nse_task!("$0.5$\n<A --> B>.\n:|:"))), "K<S<Inh(W\"A\",W\"B\")|.|present|[]>|[3fe0000000000000]>"),
    ]
}

pub fn run(ctx: &mut Ctx) {
    // literal macro invocations (shard 0 only; fixed)
    if ctx.shard == 0 {
        for (src, thunk, want) in literal_macros() {
            ctx.report.eval();
            ctx.report.bump("family.literal-macro-invocations");
            let c = match observe(|| canon_real_narsese(&thunk())) {
                Obs::Ret(c) => c,
                Obs::Panic(p) => format!("PANIC({})", p),
            };
            if c != want {
                ctx.report.violate(
                    format!("C09|literal-macro|{}", src),
                    format!("enum_nse!({}) = {} (expected {})", src, c, want),
                    J::obj().set("format", "ascii").set("literal", src).set("why", "literal macro result differs"),
                );
            }
            // the lexical macro on the same text
            if let Some(w) = text_failure(Fmt::Ascii, Pipe::MacroLex, src, want) {
                ctx.report.violate(
                    format!("C09|literal-lexical-macro|{}", src),
                    w.clone(),
                    J::obj().set("format", "ascii").set("literal", src).set("why", w),
                );
            }
        }
    }
    let mut rng = ctx.rng(0xC09);
    let mut idx = 0usize;
    // (1) small universe, all {0,1}^boundaries when <= 12 boundaries
    for f in ALL_FMT {
        let base = base_atoms(&["A", "go-to"]);
        let mut items: Vec<TD> = base.clone();
        items.extend(universe_over(&base[..3], 2, false));
        // shapes that can be written with the derived copulas (every atom kind next to the copula)
        for a in &base {
            for b in &base[..2] {
                items.push(TD::bin(Kind::Inh, TD::comp(Kind::SetExt, vec![a.clone()]), b.clone()));
                items.push(TD::bin(Kind::Inh, a.clone(), TD::comp(Kind::SetInt, vec![b.clone()])));
                items.push(TD::bin(Kind::Inh, TD::comp(Kind::SetExt, vec![a.clone()]), TD::comp(Kind::SetInt, vec![b.clone()])));
                items.push(TD::bin(Kind::EquivPred, a.clone(), b.clone()));
            }
        }
        for (i, t) in items.into_iter().enumerate() {
            idx += 1;
            if !ctx.mine(idx) {
                continue;
            }
            let nd = wrap_rotating(t, i);
            let n = tokens(f, &nd, &mut Sugar::default()).len();
            ctx.report.nontrivial(&format!("{}|{}", f.name(), nd.canon()));
            // seed 0 = plain copulas, seed 1 = derived copulas wherever the shape allows
            let sugared_differs = tokens(f, &nd, &mut sugar_of(1)) != tokens(f, &nd, &mut sugar_of(0));
            for seed in [0u64, 1] {
                if seed == 1 && !sugared_differs {
                    continue;
                }
                if seed == 1 {
                    ctx.report.bump("values also written with derived copulas");
                }
                for kind in ["none", "one-everywhere", "inner-one"] {
                    check(ctx, f, &nd, kind, seed);
                }
                if n + 1 <= 13 {
                    ctx.report.bump("values with all 2^boundaries spacings");
                    for bits in 0..(1u64 << (n + 1)) {
                        check(ctx, f, &nd, &format!("bits:{}", bits), seed);
                    }
                } else {
                    for _ in 0..16 {
                        let bits = rng.next_u64();
                        check(ctx, f, &nd, &format!("bits:{}", bits), seed);
                    }
                }
            }
        }
    }
    // (2) random deep values with random spacings and Unicode whitespace
    let n = ctx.share(150_000, 3_000_000);
    for i in 0..n {
        if ctx.out_of_time() {
            ctx.report.inconclusive.push(format!("random workload cut at {} of {}", i, n));
            break;
        }
        let f = ALL_FMT[(i % 3) as usize];
        let names = safe_names(f);
        let g = Gen { names: &names, max_depth: 6, max_arity: 4, placeholders: true, set_bias: false };
        let d__ = 1 + rng.below(5);
        let mut nd = g.narsese(&mut rng, d__);
        if i % 2 == 0 {
            let planted = super::c10::plant(nd.term(), &mut rng);
            *nd.term_mut() = planted;
        }
        if i % 37 == 0 {
            // very long names (127..300 characters): the first named atom of the value is stretched
            fn stretch(t: &mut TD, len: usize, done: &mut bool) {
                if *done {
                    return;
                }
                if t.k.shape() == Shape::AtomNamed {
                    let base: Vec<char> = if t.name.is_empty() { vec!['a'] } else { t.name.chars().filter(|c| *c != '-').collect() };
                    let base = if base.is_empty() { vec!['a'] } else { base };
                    t.name = (0..len).map(|j| base[j % base.len()]).collect();
                    *done = true;
                    return;
                }
                for k in t.kids.iter_mut() {
                    stretch(k, len, done);
                }
            }
            let len = [127usize, 128, 129, 200, 300][(i / 37 % 5) as usize];
            stretch(nd.term_mut(), len, &mut false);
            ctx.report.bump("values-with-a-name-of-127..300-characters");
        }
        ctx.report.nontrivial(&format!("{}|{}", f.name(), nd.canon()));
        if i % 97 == 0 {
            let toks = tokens(f, &nd, &mut Sugar::default());
            let sp = random_spacing(toks.len(), &mut rng, 3);
            ctx.report.sample(|| J::obj().set("format", f.name()).set("value", nd.canon()).set("spaced_text", render(&toks, &sp, " ")));
            // cross-check of the token renderer against the library formatter (harness consistency)
            let lib: String = f.e().format_narsese(&nd.build()).chars().filter(|c| *c != ' ').collect();
            let mine: String = toks.concat().chars().filter(|c| *c != ' ').collect();
            if lib != mine {
                ctx.report.bump("harness.token-renderer-differs-from-formatter");
            } else {
                ctx.report.bump("harness.token-renderer-agrees-with-formatter");
            }
        }
        let s01 = rng.below(2) as u64;
        check(ctx, f, &nd, "none", s01);
        check(ctx, f, &nd, "one-everywhere", s01);
        for _ in 0..3 {
            let s = rng.next_u64();
            check(ctx, f, &nd, "random", s);
        }
        let s = rng.next_u64();
        check_multi(ctx, f, &nd, s);
        check(ctx, f, &nd, &format!("unicode:{}", rng.below(WS_CHARS.len())), s);
        check(ctx, f, &nd, "inside-tokens", s);
    }
    ctx.report.note(
        "rule",
        "a case = (format, value, spacing of its token list) through the enum parser and lexical-parse+fold (Unicode whitespace and inside-token insertion: lexical pipeline and macro bodies only); non-trivial = every value (distinct values are counted, each is run under many spacings); evaluations count spaced strings",
    );
}

pub fn replay(ctx: &mut Ctx, d: &J) -> Option<()> {
    let f = fmt_of(d)?;
    if jstr(d, "pipeline").as_deref() == Some("parse_multi") {
        let nd = nd_from_json(d.get("value")?)?;
        let seed = d.get("spacing_seed")?.as_i128()? as u64;
        if let Some((_, w)) = multi_failure(f, &nd, seed) {
            ctx.report.violate(format!("C09|{}|parse_multi|{}", f.name(), nd.canon()), w, d.clone());
        }
        return Some(());
    }
    if let Some(k) = jstr(d, "spacing").filter(|k| k.starts_with("after:")) {
        let nd = nd_from_json(d.get("value")?)?;
        let seed = d.get("spacing_seed")?.as_i128()? as u64;
        if let Some((pipe, _, w)) = case_failure(f, &nd, &k, seed) {
            ctx.report.violate(format!("C09|{}|{}|{}", f.name(), pipe.name(), nd.canon()), w, d.clone());
        }
        return Some(());
    }
    if let Some(text) = jstr(d, "text") {
        let nd = nd_from_json(d.get("value")?)?;
        let pipe = Pipe::from(&jstr(d, "pipeline")?);
        if let Some(w) = text_failure(f, pipe, &text, &nd.canon()) {
            ctx.report.violate(format!("C09|{}|{}|{}", f.name(), pipe.name(), nd.canon()), w, d.clone());
        }
    }
    Some(())
}
