//! C02 — lexical Narsese survives format-then-parse in every shipped format.

use super::common::*;
use crate::guard::{observe, Obs};
use crate::json::J;
use crate::lexgen::{self, LexGen, Vocab};
use crate::names::*;
use crate::Ctx;
use narsese::lexical::{Narsese as LexNarsese, Sentence as LexSentence, Task as LexTask, Term as LexTerm};

pub fn failure(f: Fmt, x: &LexNarsese) -> Option<String> {
    failure_in(f.l(), x)
}

/// ... with the format instance given explicitly (the static one, or a freshly created one)
pub fn failure_in(l: &narsese::conversion::string::impl_lexical::NarseseFormat, x: &LexNarsese) -> Option<String> {
    let s = match observe(|| l.format_narsese(x)) {
        Obs::Ret(s) => s,
        Obs::Panic(p) => return Some(format!("format_narsese panicked: {}", p)),
    };
    // the specific entry points agree
    let alt = observe(|| match x {
        LexNarsese::Term(t) => (l.format_term(t), l.format(t)),
        LexNarsese::Sentence(t) => (l.format_sentence(t), l.format(t)),
        LexNarsese::Task(t) => (l.format_task(t), l.format(t)),
    });
    if let Obs::Ret((a, b)) = &alt {
        if *a != s || *b != s {
            return Some(format!("lexical formatting entry points disagree: {:?} / {:?} / {:?}", s, a, b));
        }
    }
    let want = lexgen::lex_canon(x);
    // a bare term also through the term-only entry point
    if let LexNarsese::Term(t) = x {
        match observe(|| l.parse_term(&s).map(|v| lexgen::lex_term_canon(&v)).map_err(|e| e.to_string())) {
            Obs::Ret(Ok(c)) => {
                if format!("Term({})", c) != want && c != lexgen::lex_term_canon(t) {
                    return Some(format!("parse_term({:?}) = {} but the original is {}", s, c, lexgen::lex_term_canon(t)));
                }
            }
            Obs::Ret(Err(e)) => return Some(format!("parse_term({:?}) = Err({})", s, e)),
            Obs::Panic(p) => return Some(format!("parse_term({:?}) panicked: {}", s, p)),
        }
    }
    match observe(|| l.parse(&s).map(|v| lexgen::lex_canon(&v)).map_err(|e| e.to_string())) {
        Obs::Ret(Ok(c)) => {
            if c != want {
                Some(format!("parse({:?}) = {} but the original is {}", s, c, want))
            } else {
                None
            }
        }
        Obs::Ret(Err(e)) => Some(format!("parse({:?}) = Err({})", s, e)),
        Obs::Panic(p) => Some(format!("parse({:?}) panicked: {}", s, p)),
    }
}

/// the round trip through a format created a moment ago by the public factory, stored where a
/// format of vocabulary `prev` was created, used and dropped just before
pub fn recreated_failure(prev: Option<Fmt>, f: Fmt, x: &LexNarsese) -> Option<String> {
    if let Some(p) = prev {
        {
            let v = Vocab::of(p);
            let a = LexTerm::new_atom("", "A");
            let warm = LexTerm::new_statement(
                v.copulas[0].clone(),
                LexTerm::new_set(v.set_brackets[0].0.clone(), vec![a.clone(), a.clone()], v.set_brackets[0].1.clone()),
                LexTerm::new_compound(v.connecters[0].clone(), vec![a.clone(), a.clone()]),
            );
            with_recreated_lex(p, |l| failure_in(l, &LexNarsese::Term(warm)));
        }
    }
    if let Some(w) = with_recreated_lex(f, |l| failure_in(l, x)) {
        return Some(format!("with a format just created by the public factory (in the place of a dropped {} format): {}", prev.map_or("-", |p| p.name()), w));
    }
    // the very same text, immediately afterwards, through the other vocabularies created in the same place:
    // whatever that gives (usually an error), it is what the static instance of that vocabulary gives
    let text = f.l().format_narsese(x);
    for g in ALL_FMT.iter().copied().filter(|g| *g != f) {
        let class = |r: Result<LexNarsese, String>| match r {
            Ok(v) => format!("Ok({})", lexgen::lex_canon(&v)),
            Err(_) => "Err".to_string(),
        };
        let want = match observe(|| g.l().parse(&text).map_err(|e| e.to_string())) {
            Obs::Ret(r) => class(r),
            Obs::Panic(_) => continue, // owned by C05
        };
        // (f's own parse of the text again, so that it is the call made just before)
        let _ = with_recreated_lex(f, |l| observe(|| l.parse(&text).is_ok()));
        let got = match with_recreated_lex(g, |l| observe(|| l.parse(&text).map_err(|e| e.to_string()))) {
            Obs::Ret(r) => class(r),
            Obs::Panic(p) => format!("PANIC({})", crate::guard::panic_site(&p)),
        };
        if got != want {
            return Some(format!("{:?} parsed by a {} format created where the {} format that had just parsed the same text was = {}, the static {} instance gives {}", text, g.name(), f.name(), got, g.name(), want));
        }
    }
    None
}

// ---- shrinking of lexical values ----
fn term_cands(t: &LexTerm) -> Vec<LexTerm> {
    let mut out = vec![];
    match t {
        LexTerm::Atom { prefix, name } => {
            if name != "a" && !name.is_empty() {
                out.push(LexTerm::new_atom(prefix.clone(), "a"));
            }
            if !prefix.is_empty() && !name.is_empty() {
                out.push(LexTerm::new_atom("", name.clone()));
            }
        }
        LexTerm::Compound { connecter, terms } => {
            out.extend(terms.iter().cloned());
            if terms.len() > 1 {
                for i in 0..terms.len() {
                    let mut v = terms.clone();
                    v.remove(i);
                    out.push(LexTerm::new_compound(connecter.clone(), v));
                }
            }
            for i in 0..terms.len() {
                for c in term_cands(&terms[i]) {
                    let mut v = terms.clone();
                    v[i] = c;
                    out.push(LexTerm::new_compound(connecter.clone(), v));
                }
            }
        }
        LexTerm::Set { left_bracket, terms, right_bracket } => {
            out.extend(terms.iter().cloned());
            if terms.len() > 1 {
                for i in 0..terms.len() {
                    let mut v = terms.clone();
                    v.remove(i);
                    out.push(LexTerm::new_set(left_bracket.clone(), v, right_bracket.clone()));
                }
            }
            for i in 0..terms.len() {
                for c in term_cands(&terms[i]) {
                    let mut v = terms.clone();
                    v[i] = c;
                    out.push(LexTerm::new_set(left_bracket.clone(), v, right_bracket.clone()));
                }
            }
        }
        LexTerm::Statement { copula, subject, predicate } => {
            out.push((**subject).clone());
            out.push((**predicate).clone());
            for c in term_cands(subject) {
                out.push(LexTerm::new_statement(copula.clone(), c, (**predicate).clone()));
            }
            for c in term_cands(predicate) {
                out.push(LexTerm::new_statement(copula.clone(), (**subject).clone(), c));
            }
        }
    }
    out
}

fn sent_cands(s: &LexSentence) -> Vec<LexSentence> {
    let mut out = vec![];
    if !s.stamp.is_empty() {
        out.push(LexSentence::new(s.term.clone(), s.punctuation.clone(), "", s.truth.clone()));
    }
    for i in 0..s.truth.len() {
        let mut t = s.truth.clone();
        t.remove(i);
        out.push(LexSentence::new(s.term.clone(), s.punctuation.clone(), s.stamp.clone(), t));
    }
    for c in term_cands(&s.term) {
        out.push(LexSentence::new(c, s.punctuation.clone(), s.stamp.clone(), s.truth.clone()));
    }
    out
}

pub fn shrink_candidates(x: &LexNarsese) -> Vec<LexNarsese> {
    cands(x)
}

fn cands(x: &LexNarsese) -> Vec<LexNarsese> {
    match x {
        LexNarsese::Term(t) => term_cands(t).into_iter().map(LexNarsese::Term).collect(),
        LexNarsese::Sentence(s) => {
            let mut out = vec![LexNarsese::Term(s.term.clone())];
            out.extend(sent_cands(s).into_iter().map(LexNarsese::Sentence));
            out
        }
        LexNarsese::Task(t) => {
            let mut out = vec![LexNarsese::Sentence(t.sentence.clone()), LexNarsese::Term(t.sentence.term.clone())];
            for i in 0..t.budget.len() {
                let mut b = t.budget.clone();
                b.remove(i);
                out.push(LexNarsese::Task(LexTask { budget: b, sentence: t.sentence.clone() }));
            }
            out.extend(sent_cands(&t.sentence).into_iter().map(|s| LexNarsese::Task(LexTask { budget: t.budget.clone(), sentence: s })));
            out
        }
    }
}

pub fn shrink(f: Fmt, x: &LexNarsese) -> LexNarsese {
    let mut cur = x.clone();
    let mut budget = 500;
    loop {
        let mut progressed = false;
        for c in cands(&cur) {
            if budget == 0 {
                return cur;
            }
            budget -= 1;
            if lexgen::lex_canon(&c).len() < lexgen::lex_canon(&cur).len() && failure(f, &c).is_some() {
                cur = c;
                progressed = true;
                break;
            }
        }
        if !progressed {
            return cur;
        }
    }
}

fn check(ctx: &mut Ctx, f: Fmt, x: &LexNarsese, family: &str) {
    if ctx.report.evaluations % 4 == 0 {
        something_fails_first((ctx.report.evaluations / 4) as usize);
    }
    ctx.report.eval();
    ctx.report.bump(&format!("family.{}", family));
    ctx.report.bump(&format!("format.{}", f.name()));
    let canon = lexgen::lex_canon(x);
    let trivial = matches!(x, LexNarsese::Term(LexTerm::Atom { .. }));
    if !trivial {
        ctx.report.nontrivial(&format!("{}|{}", f.name(), canon));
    }
    match x {
        LexNarsese::Term(_) => ctx.report.bump("kind.term"),
        LexNarsese::Sentence(s) => {
            ctx.report.bump("kind.sentence");
            ctx.report.bump(&format!("items.stamp={}.truth={}", !s.stamp.is_empty(), s.truth.len()));
        }
        LexNarsese::Task(t) => {
            ctx.report.bump("kind.task");
            ctx.report.bump(&format!("items.budget={}.stamp={}.truth={}", t.budget.len(), !t.sentence.stamp.is_empty(), t.sentence.truth.len()));
        }
    }
    ctx.report.sample(|| J::obj().set("format", f.name()).set("string", f.l().format_narsese(x)).set("value", canon.clone()));
    // history: a rejected input parsed on the same thread just before must not matter
    if ctx.report.evaluations % 3 == 0 {
        let text = f.l().format_narsese(x);
        let cs: Vec<char> = text.chars().collect();
        let cut: String = cs[..cs.len() * 2 / 3].iter().collect();
        let r = observe(|| (f.l().parse(&cut).is_ok(), f.l().parse_term(&format!("{}{}", f.e().statement.brackets.0, cut)).is_ok()));
        if let Obs::Ret((a, b)) = r {
            ctx.report.bump(if a || b { "interleaved-truncated-inputs.accepted" } else { "interleaved-truncated-inputs.rejected" });
        }
    }
    // size guard: the lexical parser re-materialises the rest of the input at every position
    // (quadratic); values whose text exceeds 8000 characters are counted, not parsed
    if f.l().format_narsese(x).chars().count() > 8000 {
        ctx.report.bump("skipped-oversize(>8000 chars)");
        return;
    }
    let t0 = std::time::Instant::now();
    let verdict = failure(f, x);
    let us = t0.elapsed().as_micros() as u64;
    ctx.report.hist_max("max.roundtrip_us", us);
    if us > 2_000_000 {
        let text = f.l().format_narsese(x);
        ctx.report.bump("slow-roundtrips(>2s)");
        ctx.report.note("slowest_roundtrip", J::from(format!("{} ms for a {}-char string in {} (depth {})", us / 1000, text.chars().count(), f.name(), match x {
            LexNarsese::Term(t) => lexgen::lex_depth(t),
            LexNarsese::Sentence(s) => lexgen::lex_depth(&s.term),
            LexNarsese::Task(t) => lexgen::lex_depth(&t.sentence.term),
        })));
    }
    if verdict.is_none() && ctx.report.evaluations % 4 == 0 {
        // (the values of one format come in runs: make sure another vocabulary was in the slot before)
        let g = ALL_FMT[(ctx.report.evaluations as usize / 4) % 3];
        let prev = if g != f { Some(g) } else { last_recreated() };
        ctx.report.bump("recreated-format-in-a-reused-slot");
        if let Some(w) = recreated_failure(prev, f, x) {
            ctx.report.violate(
                format!("C02|recreated|{}|{}", f.name(), w.split(':').nth(1).unwrap_or("").chars().take(40).collect::<String>()),
                format!("[{}] lexical round trip fails {}", f.name(), w),
                J::obj().set("format", f.name()).set("lexical", lexgen::lex_json(x)).set("recreated_after", prev.map_or("-", |p| p.name())).set("why", w.clone()),
            );
        }
    }
    if let Some(w) = verdict {
        let small = shrink(f, x);
        let w2 = failure(f, &small).unwrap_or(w);
        ctx.report.violate(
            format!("C02|{}|{}", f.name(), lexgen::lex_canon(&small)),
            format!("[{}] lexical round trip fails: {}", f.name(), w2),
            J::obj().set("format", f.name()).set("lexical", lexgen::lex_json(&small)).set("original", lexgen::lex_json(x)).set("why", w2.clone()),
        );
    }
}

pub fn run(ctx: &mut Ctx) {
    let mut rng = ctx.rng(0xC02);
    // many threads at once (two per core) in the lexical formatter and parser, on values that hold alone
    if ctx.shard < 4 {
        let mut crng = ctx.rng(0x7C02);
        let mut cases: Vec<(Fmt, LexNarsese)> = vec![];
        for f in ALL_FMT {
            let lg = LexGen::new(f, false);
            cases.extend((0..40usize).map(|i| (f, lg.narsese(&mut crng, 1 + i % 3))));
            // (texts of 1 to 4 kB, of different lengths: a shared buffer that is only used above some size)
            if let Some(c) = lg.vocab.connecters.first() {
                for n in [120usize, 150, 190] {
                    let t = LexTerm::new_compound(c.clone(), (0..n).map(|i| LexTerm::new_atom("", format!("abcdefg{}", i))).collect());
                    cases.push((f, LexNarsese::Term(t)));
                }
            }
        }
        let rounds = if ctx.thorough { 60 } else { 6 };
        concurrent_family(ctx, "C02", "lexical format-then-parse", cases, rounds, |c| failure(c.0, &c.1));
    }

    // (1) vocabulary sweep: every prefix, connecter (arity 1..3), copula, set bracket, punctuation, stamp form
    let mut idx = 0usize;
    for f in ALL_FMT {
        let lg = LexGen::new(f, false);
        let v = &lg.vocab;
        ctx.report.note(
            &format!("vocabulary_{}", f.name()),
            J::from(format!(
                "{} prefixes, {} connecters, {} copulas, {} set brackets, {} punctuations, {} stamp forms (read from the instance)",
                v.prefixes.len(),
                v.connecters.len(),
                v.copulas.len(),
                v.set_brackets.len(),
                v.punctuations.len(),
                v.stamp_forms.len()
            )),
        );
        let a = LexTerm::new_atom("", "A");
        let b = LexTerm::new_atom("", "B");
        let mut terms: Vec<LexTerm> = vec![];
        for p in &v.prefixes {
            let e = f.e();
            let name = if p == e.atom.prefix_placeholder { "" } else { "x1" };
            terms.push(LexTerm::new_atom(p.clone(), name));
        }
        for c in &v.connecters {
            for n in 1..=3 {
                terms.push(LexTerm::new_compound(c.clone(), (0..n).map(|i| if i % 2 == 0 { a.clone() } else { b.clone() }).collect()));
            }
        }
        for (l, r) in &v.set_brackets {
            for n in 1..=3 {
                terms.push(LexTerm::new_set(l.clone(), (0..n).map(|i| if i % 2 == 0 { a.clone() } else { b.clone() }).collect(), r.clone()));
            }
        }
        for c in &v.copulas {
            terms.push(LexTerm::new_statement(c.clone(), a.clone(), b.clone()));
            // prefix-only atom directly before / after the copula
            terms.push(LexTerm::new_statement(c.clone(), LexTerm::new_atom(f.e().atom.prefix_placeholder, ""), b.clone()));
            terms.push(LexTerm::new_statement(c.clone(), a.clone(), LexTerm::new_atom(f.e().atom.prefix_placeholder, "")));
        }
        // near-keyword names as whole terms (the name ends / begins with a proper part of a keyword)
        for n in near_keyword_names_all(f) {
            terms.push(LexTerm::new_atom("", n.clone()));
            terms.push(LexTerm::new_atom(v.prefixes.iter().find(|p| !p.is_empty() && p.as_str() != f.e().atom.prefix_placeholder).cloned().unwrap_or_default(), n.clone()));
        }
        let n_plain = terms.len();
        let nested: Vec<LexTerm> = terms.iter().take(n_plain - 2 * near_keyword_names_all(f).len()).map(|t| LexTerm::new_statement(v.copulas[0].clone(), t.clone(), LexTerm::new_set(v.set_brackets[0].0.clone(), vec![t.clone()], v.set_brackets[0].1.clone()))).collect();
        terms.extend(nested);
        for (ti, t) in terms.iter().enumerate() {
            idx += 1;
            if !ctx.mine(idx) {
                continue;
            }
            check(ctx, f, &LexNarsese::Term(t.clone()), "vocabulary-sweep");
            // every punctuation x stamp form x truth count x budget count around this term
            let p = &v.punctuations[ti % v.punctuations.len()];
            for (si, (sl, sr)) in v.stamp_forms.iter().enumerate() {
                let stamps = if sl.is_empty() { vec![sr.clone()] } else { vec![format!("{}5{}", sl, sr), format!("{}-12{}", sl, sr), format!("{}+0{}", sl, sr)] };
                for st in stamps.into_iter().chain(std::iter::once(String::new())) {
                    for nt in 0..=3usize {
                        let truth: Vec<String> = ["1", "0.9", "0.5", "0"].iter().take(nt).map(|s| s.to_string()).collect();
                        let sent = LexSentence::new(t.clone(), p.clone(), st.clone(), truth);
                        check(ctx, f, &LexNarsese::Sentence(sent.clone()), "vocabulary-sweep");
                        let nb = (ti + si + nt) % 5;
                        let budget: Vec<String> = ["0.5", "0.75", "0.4", "1", "0"].iter().take(nb).map(|s| s.to_string()).collect();
                        check(ctx, f, &LexNarsese::Task(LexTask { budget, sentence: sent }), "vocabulary-sweep");
                    }
                }
            }
        }
    }
    // (1b) extreme sizes: compounds and sets of 255..1000 atoms with every connecter / bracket pair,
    // and chains 300 deep (on a thread with a large stack; not shrunk)
    for f in ALL_FMT {
        let v = Vocab::of(f);
        let mut cases: Vec<(String, LexTerm)> = vec![];
        for n in [255usize, 256, 257, 300, 1000] {
            let atoms = |n: usize| -> Vec<LexTerm> { (0..n).map(|i| LexTerm::new_atom("", format!("w{}", i))).collect() };
            for (ci, c) in v.connecters.iter().enumerate() {
                if n < 1000 || ci % 4 == 0 {
                    cases.push((format!("compound {:?} x{}", c, n), LexTerm::new_compound(c.clone(), atoms(n))));
                }
            }
            for (l, r) in &v.set_brackets {
                cases.push((format!("set {}{} x{}", l, r, n), LexTerm::new_set(l.clone(), atoms(n), r.clone())));
            }
        }
        for depth in [129usize, 257, 300] {
            let mut t = LexTerm::new_atom("", "core");
            for i in 0..depth {
                t = match i % 3 {
                    0 => LexTerm::new_compound(v.connecters[i % v.connecters.len()].clone(), vec![t]),
                    1 => LexTerm::new_set(v.set_brackets[0].0.clone(), vec![t], v.set_brackets[0].1.clone()),
                    _ => LexTerm::new_statement(v.copulas[i % v.copulas.len()].clone(), t, LexTerm::new_atom("", "q")),
                };
            }
            cases.push((format!("chain {} deep", depth), t));
        }
        if !big_stacks_available() {
            cases.clear();
        }
        for (label, t) in cases {
            idx += 1;
            if !ctx.mine(idx) {
                continue;
            }
            ctx.report.eval();
            ctx.report.bump("family.extreme-sizes");
            ctx.report.nontrivial(&format!("{}|extreme|{}", f.name(), label));
            let x = LexNarsese::Term(t);
            match on_big_stack(move || failure(f, &x)) {
                Some(None) => {}
                Some(Some(w)) => ctx.report.violate(
                    format!("C02|{}|extreme|{}", f.name(), label),
                    format!("[{}] lexical round trip fails for the extreme case {}: {}", f.name(), label, w.chars().take(300).collect::<String>()),
                    J::obj().set("format", f.name()).set("extreme", label.as_str()),
                ),
                None => ctx.report.violate(format!("C02|{}|extreme-crash|{}", f.name(), label), format!("[{}] the thread handling {} died", f.name(), label), J::obj().set("format", f.name()).set("extreme", label.as_str())),
            }
        }
    }
    // (2) random vocabulary-consistent values
    let n = ctx.share(240_000, 5_000_000);
    let gens: Vec<LexGen> = ALL_FMT.iter().map(|f| LexGen::new(*f, false)).collect();
    for i in 0..n {
        if ctx.out_of_time() {
            ctx.report.inconclusive.push(format!("random workload cut at {} of {}", i, n));
            break;
        }
        let g = &gens[(i % 3) as usize];
        let depth = 1 + rng.below(if i % 20 == 0 { 8 } else { 4 });
        let x = g.narsese(&mut rng, depth);
        check(ctx, g.fmt, &x, "random");
    }
    ctx.report.note(
        "rule",
        "a case = (lexical format, vocabulary-consistent lexical value); non-trivial = not a bare atom term; distinct = distinct (format, structural rendering)",
    );
}

pub fn replay(ctx: &mut Ctx, d: &J) -> Option<()> {
    let f = fmt_of(d)?;
    if d.get("extreme").is_some() {
        super::rerun_fixed(ctx);
        return Some(());
    }
    let x = lexgen::lex_from_json(d.get("lexical")?)?;
    if let Some(p) = jstr(d, "recreated_after") {
        if let Some(w) = recreated_failure(Fmt::from_name(&p), f, &x) {
            ctx.report.violate(format!("C02|recreated|{}", f.name()), w, d.clone());
        }
        return Some(());
    }
    if let Some(w) = failure(f, &x) {
        ctx.report.violate(format!("C02|{}|{}", f.name(), lexgen::lex_canon(&x)), w, d.clone());
    }
    Some(())
}
