//! C15 — term / sentence / task classification and conversions are lossless.

use super::common::*;
use crate::desc::*;
use crate::guard::{observe, Obs};
use crate::json::J;
use crate::lexgen::{self, LexGen};
use crate::names::*;
use crate::rng::Rng;
use crate::Ctx;
use narsese::api::{CastToTask, TryCastToSentence};
use narsese::enum_narsese::Narsese;
use narsese::lexical::Narsese as LexNarsese;

fn kind_of_canon(c: &str) -> &'static str {
    if c.starts_with("T<") || c.starts_with("Term(") {
        "term"
    } else if c.starts_with("S<") || c.starts_with("Sen(") {
        "sentence"
    } else {
        "task"
    }
}

fn lex_parse_canon(f: Fmt, s: &str) -> Out {
    match observe(|| f.l().parse(s).map(|v| lexgen::lex_canon(&v)).map_err(|e| e.to_string())) {
        Obs::Ret(Ok(c)) => Out::Ok(c),
        Obs::Ret(Err(e)) => Out::Err(e),
        Obs::Panic(p) => Out::Panic(p),
    }
}

/// conversion laws on an enum value
fn enum_laws(f: Fmt, nd: &ND) -> Option<String> {
    let v = nd.build();
    let canon = nd.canon();
    let kind = nd.kind_name();
    // is_* and the 3x3 accessor matrix
    let flags = (v.is_term(), v.is_sentence(), v.is_task());
    if flags != (kind == "term", kind == "sentence", kind == "task") {
        return Some(format!("is_term/is_sentence/is_task = {:?} for a {}", flags, kind));
    }
    let as_term = v.clone().try_into_term().map(|t| format!("T<{}>", canon_real(&t))).ok();
    let as_sentence = v.clone().try_into_sentence().map(|s| canon_real_sentence(&s)).ok();
    let as_task = v.clone().try_into_task().map(|k| canon_real_task(&k)).ok();
    for (name, got, matches) in [("term", &as_term, kind == "term"), ("sentence", &as_sentence, kind == "sentence"), ("task", &as_task, kind == "task")] {
        match (got, matches) {
            (Some(c), true) => {
                if *c != canon {
                    return Some(format!("try_into_{} returned {} for {}", name, c, canon));
                }
            }
            (None, false) => {}
            (Some(_), false) => return Some(format!("try_into_{} succeeded on a {}", name, kind)),
            (None, true) => return Some(format!("try_into_{} failed on a {}", name, kind)),
        }
    }
    // the std conversion traits of the enum model (TryFrom<Narsese> / TryInto) are the same accessors
    {
        use narsese::enum_narsese::{Sentence as ES, Task as EK, Term as ET};
        let t1 = ET::try_from(v.clone()).map(|t| format!("T<{}>", canon_real(&t))).ok();
        let s1 = ES::try_from(v.clone()).map(|s| canon_real_sentence(&s)).ok();
        let k1 = EK::try_from(v.clone()).map(|k| canon_real_task(&k)).ok();
        let k2: Option<String> = {
            let r: Result<EK, _> = v.clone().try_into();
            r.map(|k| canon_real_task(&k)).ok()
        };
        for (name, got, want) in [("Term::try_from", &t1, &as_term), ("Sentence::try_from", &s1, &as_sentence), ("Task::try_from", &k1, &as_task), ("TryInto<Task>", &k2, &as_task)] {
            if got != want {
                return Some(format!("{}(Narsese {}) = {:?} but the matching accessor gives {:?}", name, kind, got, want));
            }
        }
    }
    // from_* wrappers
    match nd {
        ND::Term(t) => {
            if canon_real_narsese(&Narsese::from_term(t.build())) != canon {
                return Some("from_term changed the value".into());
            }
        }
        ND::Sent(s) => {
            if canon_real_narsese(&Narsese::from_sentence(s.build())) != canon {
                return Some("from_sentence changed the value".into());
            }
        }
        ND::Task(k) => {
            if canon_real_narsese(&Narsese::from_task(k.build())) != canon {
                return Some("from_task changed the value".into());
            }
        }
    }
    // try_into_task_compatible
    let compat = v.clone().try_into_task_compatible().map(|k| canon_real_task(&k)).ok();
    match nd {
        ND::Term(_) => {
            if compat.is_some() {
                return Some("try_into_task_compatible accepted a term".into());
            }
        }
        ND::Sent(s) => {
            let want = KD { sent: s.clone(), budget: vec![] }.canon();
            if compat.as_deref() != Some(&want) {
                return Some(format!("try_into_task_compatible(sentence) = {:?}, expected {}", compat, want));
            }
            let direct = canon_real_task(&s.build().cast_to_task());
            if direct != want {
                return Some(format!("cast_to_task(sentence) = {}, expected {}", direct, want));
            }
            // cast there and back
            match s.build().cast_to_task().try_cast_to_sentence() {
                Ok(back) => {
                    if canon_real_sentence(&back) != s.canon() {
                        return Some("try_cast_to_sentence(cast_to_task(s)) returned a different sentence".into());
                    }
                }
                Err(_) => return Some("try_cast_to_sentence(cast_to_task(s)) is Err".into()),
            }
            // formatting the cast task yields a task with an empty budget, never the bare sentence
            let task = s.build().cast_to_task();
            let text = f.e().format_task(&task);
            match enum_parse(f, &text) {
                Out::Ok(c) => {
                    if c != want {
                        return Some(format!("parse(format(cast_to_task(s))) = {} from {:?}, expected {}", c, text, want));
                    }
                }
                o => return Some(format!("parse(format(cast_to_task(s))) = {} from {:?}", o.short(), text)),
            }
            // the lexical parser must see a task as well
            match lex_parse_canon(f, &text) {
                Out::Ok(c) => {
                    if kind_of_canon(&c) != "task" {
                        return Some(format!("lexical parse of format(cast_to_task(s)) {:?} is a {}", text, kind_of_canon(&c)));
                    }
                }
                o => return Some(format!("lexical parse of format(cast_to_task(s)) {:?} = {}", text, o.short())),
            }
        }
        ND::Task(k) => {
            if compat.as_deref() != Some(&canon[..]) {
                return Some("try_into_task_compatible(task) changed the task".into());
            }
            match k.build().try_cast_to_sentence() {
                Ok(s) => {
                    if !k.budget.is_empty() {
                        return Some("try_cast_to_sentence succeeded on a task with a non-empty budget".into());
                    }
                    if canon_real_sentence(&s) != k.sent.canon() {
                        return Some("try_cast_to_sentence returned a different sentence".into());
                    }
                }
                Err(back) => {
                    if k.budget.is_empty() {
                        return Some("try_cast_to_sentence failed on a task with an empty budget".into());
                    }
                    if canon_real_task(&back) != canon {
                        return Some("try_cast_to_sentence handed back a changed task".into());
                    }
                }
            }
        }
    }
    // the NarseseValue-level cast
    match v.clone().try_cast_to_sentence() {
        Ok(x) => {
            let want = match nd {
                ND::Sent(_) => Some(canon.clone()),
                ND::Task(k) if k.budget.is_empty() => Some(k.sent.canon()),
                _ => None,
            };
            if Some(canon_real_narsese(&x)) != want {
                return Some("Narsese::try_cast_to_sentence returned Ok with an unexpected value".into());
            }
        }
        Err(x) => {
            let should_err = matches!(nd, ND::Term(_)) || matches!(nd, ND::Task(k) if !k.budget.is_empty());
            if !should_err {
                return Some("Narsese::try_cast_to_sentence is Err where it must be Ok".into());
            }
            if canon_real_narsese(&x) != canon {
                return Some("Narsese::try_cast_to_sentence handed back a changed value".into());
            }
        }
    }
    // kind is preserved by format -> parse in both parsers
    let text = f.e().format_narsese(&v);
    // ... also when the text and prefixes of it (the same buffer cut before its punctuation, truth, ...)
    // are handed to one parse_multi call as slices
    if let Some(rows) = (if text.len() % 3 == 0 { prefix_slice_batch(f, &text) } else { None }) {
        if let Some((s, b, a)) = rows.into_iter().find(|(_, b, a)| b != a) {
            return Some(format!("{:?} passed as a slice of the buffer {:?} in one parse_multi call with other prefixes of it = {} but alone {}", s, text, b, a));
        }
    }
    match enum_parse(f, &text) {
        Out::Ok(c) => {
            if kind_of_canon(&c) != kind {
                return Some(format!("enum parse of {:?} is a {}, the value is a {}", text, kind_of_canon(&c), kind));
            }
        }
        o => return Some(format!("enum parse of {:?} = {}", text, o.short())),
    }
    // the same classification through the item-wise result (`NarseseOptions`): the flags, and the
    // task -> sentence -> term cascade of `take_*` calls on ONE value
    {
        use narsese::api::NarseseOptions;
        use narsese::enum_narsese::{Budget, Punctuation, Stamp, Term, Truth};
        type Opts = NarseseOptions<Budget, Term, Punctuation, Stamp, Truth>;
        let r = observe(|| -> Result<Option<String>, String> {
            let mut o: Opts = f.e().parse::<Opts>(&text).map_err(|e| e.to_string())?;
            let flags = (o.has_task(), o.has_sentence());
            let want = (kind == "task", kind != "term");
            if flags != want {
                return Ok(Some(format!("NarseseOptions of {:?}: has_task / has_sentence = {:?}, expected {:?}", text, flags, want)));
            }
            let mut o2 = o.clone();
            let as_task = o.take_task().is_some();
            let as_sentence = !as_task && o.take_sentence().is_some();
            let as_term = !as_task && !as_sentence && o.take_term().is_some();
            let got = if as_task { "task" } else if as_sentence { "sentence" } else if as_term { "term" } else { "nothing" };
            if got != kind {
                return Ok(Some(format!("NarseseOptions of {:?}: the take_task / take_sentence / take_term cascade yields {}, the value is a {}", text, got, kind)));
            }
            // the other order on a copy: a sentence taken from a task's items leaves the budget behind
            let s2 = o2.take_sentence().is_some();
            if s2 != (kind != "term") || o2.take_budget().is_some() != (kind == "task") {
                return Ok(Some(format!("NarseseOptions of {:?}: take_sentence / take_budget disagree with the kind {}", text, kind)));
            }
            Ok(None)
        });
        match r {
            Obs::Ret(Ok(None)) => {}
            Obs::Ret(Ok(Some(w))) => return Some(w),
            Obs::Ret(Err(e)) => return Some(format!("parse::<NarseseOptions>({:?}) = Err({})", text, e)),
            Obs::Panic(p) => return Some(format!("NarseseOptions handling of {:?} panicked: {}", text, p)),
        }
    }
    match lex_parse_canon(f, &text) {
        Out::Ok(c) => {
            if kind_of_canon(&c) != kind {
                return Some(format!("lexical parse of {:?} is a {}, the value is a {}", text, kind_of_canon(&c), kind));
            }
        }
        o => return Some(format!("lexical parse of {:?} = {}", text, o.short())),
    }
    None
}

fn lex_laws(f: Fmt, x: &LexNarsese) -> Option<String> {
    let canon = lexgen::lex_canon(x);
    let kind = kind_of_canon(&canon);
    let flags = (x.is_term(), x.is_sentence(), x.is_task());
    if flags != (kind == "term", kind == "sentence", kind == "task") {
        return Some(format!("lexical is_* = {:?} for a {}", flags, kind));
    }
    let got = [
        x.clone().try_into_term().ok().map(|t| format!("Term({})", lexgen::lex_term_canon(&t))),
        x.clone().try_into_sentence().ok().map(|s| lexgen::lex_sentence_canon(&s)),
        x.clone().try_into_task().ok().map(|t| lexgen::lex_task_canon(&t)),
    ];
    for (i, name) in ["term", "sentence", "task"].iter().enumerate() {
        match (&got[i], *name == kind) {
            (Some(c), true) => {
                if *c != canon {
                    return Some(format!("lexical try_into_{} changed the value", name));
                }
            }
            (None, false) => {}
            (Some(_), false) => return Some(format!("lexical try_into_{} succeeded on a {}", name, kind)),
            (None, true) => return Some(format!("lexical try_into_{} failed on a {}", name, kind)),
        }
    }
    match x {
        LexNarsese::Sentence(s) => {
            let t = s.clone().cast_to_task();
            if !t.budget.is_empty() || lexgen::lex_sentence_canon(&t.sentence) != lexgen::lex_sentence_canon(s) {
                return Some("lexical cast_to_task changed the sentence or added a budget".into());
            }
            match t.clone().try_cast_to_sentence() {
                Ok(b) => {
                    if lexgen::lex_sentence_canon(&b) != lexgen::lex_sentence_canon(s) {
                        return Some("lexical try_cast_to_sentence(cast_to_task(s)) differs from s".into());
                    }
                }
                Err(_) => return Some("lexical try_cast_to_sentence(cast_to_task(s)) is Err".into()),
            }
            match x.clone().try_into_task_compatible() {
                Ok(k) => {
                    if lexgen::lex_task_canon(&k) != lexgen::lex_task_canon(&t) {
                        return Some("lexical try_into_task_compatible(sentence) differs from cast_to_task".into());
                    }
                }
                Err(_) => return Some("lexical try_into_task_compatible(sentence) is Err".into()),
            }
            let text = f.l().format_task(&t);
            match lex_parse_canon(f, &text) {
                Out::Ok(c) => {
                    if c != lexgen::lex_task_canon(&t) {
                        return Some(format!("lexical parse(format(cast_to_task(s))) = {} from {:?}", c, text));
                    }
                }
                o => return Some(format!("lexical parse(format(cast_to_task(s))) = {} from {:?}", o.short(), text)),
            }
        }
        LexNarsese::Task(t) => match t.clone().try_cast_to_sentence() {
            Ok(s) => {
                if !t.budget.is_empty() {
                    return Some("lexical try_cast_to_sentence succeeded with a non-empty budget".into());
                }
                if lexgen::lex_sentence_canon(&s) != lexgen::lex_sentence_canon(&t.sentence) {
                    return Some("lexical try_cast_to_sentence changed the sentence".into());
                }
            }
            Err(b) => {
                if t.budget.is_empty() {
                    return Some("lexical try_cast_to_sentence failed with an empty budget".into());
                }
                if lexgen::lex_task_canon(&b) != lexgen::lex_task_canon(t) {
                    return Some("lexical try_cast_to_sentence handed back a changed task".into());
                }
            }
        },
        LexNarsese::Term(_) => {
            if x.clone().try_into_task_compatible().is_ok() {
                return Some("lexical try_into_task_compatible accepted a term".into());
            }
        }
    }
    let text = f.l().format_narsese(x);
    match lex_parse_canon(f, &text) {
        Out::Ok(c) => {
            if kind_of_canon(&c) != kind {
                return Some(format!("lexical parse of {:?} is a {}, the value is a {}", text, kind_of_canon(&c), kind));
            }
        }
        o => return Some(format!("lexical parse of {:?} = {}", text, o.short())),
    }
    None
}

/// item-subset classification: mask bits 0 budget, 1 punctuation, 2 stamp, 3 truth
pub fn subset_string(f: Fmt, k: &KD, mask: u8) -> String {
    let e = f.e();
    let mut parts: Vec<String> = vec![];
    if mask & 1 != 0 {
        parts.push(e.format_budget(&build_budget(&k.budget)));
    }
    let mut term = e.format_term(&k.sent.term.build());
    if mask & 2 != 0 {
        term.push_str(&e.format_punctuation(&k.sent.punct.build()));
    }
    parts.push(term);
    if mask & 4 != 0 {
        let st = if k.sent.stamp == StampD::Eternal { StampD::Present } else { k.sent.stamp };
        parts.push(e.format_stamp(&st.build()));
    }
    if mask & 8 != 0 {
        let tr = if k.sent.truth.is_empty() { vec![1.0, 0.9] } else { k.sent.truth.clone() };
        parts.push(e.format_truth(&build_truth(&tr)));
    }
    parts.join(" ")
}

fn subset_failure(f: Fmt, k: &KD, mask: u8) -> Option<String> {
    let s = subset_string(f, k, mask);
    let want = if mask & 1 != 0 && mask & 2 != 0 {
        "task"
    } else if mask & 2 != 0 {
        "sentence"
    } else {
        "term"
    };
    for (name, out) in [("enum", enum_parse(f, &s)), ("lexical", lex_parse_canon(f, &s))] {
        match out {
            Out::Ok(c) => {
                if kind_of_canon(&c) != want {
                    return Some(format!("{} parser classifies {:?} as {} (items present imply {})", name, s, kind_of_canon(&c), want));
                }
            }
            o => return Some(format!("{} parser: {:?} = {}", name, s, o.short())),
        }
    }
    None
}

fn want_kind(mask: u8) -> &'static str {
    if mask & 1 != 0 && mask & 2 != 0 {
        "task"
    } else if mask & 2 != 0 {
        "sentence"
    } else {
        "term"
    }
}

/// the subset strings in `order` through parse_multi; Some((mask, why)) on the first misclassification
fn batch_failure(f: Fmt, k: &KD, order: &[u8]) -> Option<(u8, String)> {
    let texts: Vec<String> = order.iter().map(|m| subset_string(f, k, *m)).collect();
    let r = observe(|| {
        f.e()
            .parse_multi(texts.iter().map(|s| s.as_str()))
            .into_iter()
            .map(|r| r.ok().map(|v| canon_real_narsese(&v)))
            .collect::<Vec<Option<String>>>()
    });
    let rs = match r {
        Obs::Ret(rs) => rs,
        Obs::Panic(p) => return Some((0, format!("parse_multi panicked on the subset batch: {}", p))),
    };
    for (i, m) in order.iter().enumerate() {
        let prev = if i > 0 { format!("{:?}", texts[i - 1]) } else { "nothing".to_string() };
        match rs.get(i) {
            Some(Some(c)) => {
                if kind_of_canon(c) != want_kind(*m) {
                    return Some((*m, format!("parse_multi classifies {:?} as a {} (its items imply a {}) after {}", texts[i], kind_of_canon(c), want_kind(*m), prev)));
                }
            }
            _ => return Some((*m, format!("parse_multi rejects {:?} (its items imply a {}) after {}", texts[i], want_kind(*m), prev))),
        }
    }
    None
}

fn report(ctx: &mut Ctx, sig: String, what: String, detail: J) {
    ctx.report.violate(sig, what, detail);
}

pub fn run(ctx: &mut Ctx) {
    // many threads at once (two per core) on values / strings that hold alone
    if ctx.shard < 4 {
        let base = base_atoms(&["A", "B"]);
        let mut cases: Vec<(Fmt, ND)> = vec![];
        for f in ALL_FMT {
            let pick = universe_over(&base, 2, false);
            let step = (pick.len() / 40).max(1);
            cases.extend(pick.into_iter().step_by(step).take(40).enumerate().map(|(i, t)| (f, wrap_rotating(t, i + ctx.shard))));
        }
        let rounds = if ctx.thorough { 60 } else { 6 };
        concurrent_family(ctx, "C15", "classification and conversion laws", cases, rounds, |c| enum_laws(c.0, &c.1));
    }

    // extreme sizes (on a thread with a large stack), as term, sentence and task
    {
        let mut idx = 0usize;
        for f in ALL_FMT {
            for (ci, (label, t)) in extreme_cases().into_iter().enumerate() {
                idx += 1;
                if !ctx.mine(idx) {
                    continue;
                }
                let nd = wrap_rotating(t, ci);
                ctx.report.eval();
                ctx.report.bump("family.extreme-sizes");
                ctx.report.nontrivial(&format!("{}|extreme|{}|{}", f.name(), label, ci % 3));
                let why = match on_big_stack(move || enum_laws(f, &nd)) {
                    Some(w) => w,
                    None => Some("the thread handling the case died".to_string()),
                };
                if let Some(w) = why {
                    report(
                        ctx,
                        format!("C15|{}|extreme|{}", f.name(), label),
                        format!("[{}] extreme case {} ({}): {}", f.name(), label, ["term", "sentence", "task"][ci % 3], w.chars().take(300).collect::<String>()),
                        J::obj().set("kind", "extreme").set("format", f.name()).set("extreme", label.as_str()).set("wrap", ci as u64),
                    );
                }
            }
        }
    }
    let mut rng = ctx.rng(0xC15);
    let n = ctx.share(300_000, 6_000_000);
    for i in 0..n {
        if ctx.out_of_time() {
            ctx.report.inconclusive.push(format!("workload cut at {} of {}", i, n));
            break;
        }
        let f = ALL_FMT[(i % 3) as usize];
        let names = safe_names(f);
        let g = Gen { names: &names, max_depth: 5, max_arity: 4, placeholders: true, set_bias: false };
        match i % 4 {
            0 | 1 => {
                let d__ = 1 + rng.below(4);
                let nd = g.narsese(&mut rng, d__);
                ctx.report.eval();
                ctx.report.bump(&format!("enum.{}.{}", f.name(), nd.kind_name()));
                if let ND::Task(k) = &nd {
                    ctx.report.bump(&format!("enum.budget_arity.{}", k.budget.len()));
                }
                ctx.report.nontrivial(&format!("enum|{}|{}", f.name(), nd.canon()));
                ctx.report.sample(|| J::obj().set("model", "enum").set("format", f.name()).set("value", nd.canon()));
                if ctx.report.evaluations % 4 == 0 {
                    something_fails_first((ctx.report.evaluations / 4) as usize);
                }
                if let Some(w) = enum_laws(f, &nd) {
                    let small = crate::shrink::shrink_nd(&nd, &mut |c| enum_laws(f, c).is_some(), 200);
                    let w2 = enum_laws(f, &small).unwrap_or(w);
                    report(
                        ctx,
                        format!("C15|enum|{}|{}", f.name(), small.canon()),
                        format!("[{}] {}", f.name(), w2),
                        J::obj().set("model", "enum").set("format", f.name()).set("value", small.to_json()).set("why", w2.clone()),
                    );
                }
            }
            2 => {
                let lg = LexGen::new(f, false);
                let d__ = 1 + rng.below(4);
                let x = lg.narsese(&mut rng, d__);
                ctx.report.eval();
                ctx.report.bump(&format!("lexical.{}", f.name()));
                ctx.report.nontrivial(&format!("lex|{}|{}", f.name(), lexgen::lex_canon(&x)));
                if ctx.report.evaluations % 4 == 0 {
                    something_fails_first((ctx.report.evaluations / 4) as usize);
                }
                if let Some(w) = lex_laws(f, &x) {
                    report(
                        ctx,
                        format!("C15|lexical|{}|{}", f.name(), w.split(" from ").next().unwrap_or("")),
                        format!("[{}] {} (value {})", f.name(), w, lexgen::lex_canon(&x)),
                        J::obj().set("model", "lexical").set("format", f.name()).set("value", lexgen::lex_canon(&x)).set("why", w.clone()),
                    );
                }
            }
            _ => {
                // all 16 item subsets of one task description
                let d__ = 1 + rng.below(3);
                let k = g.task(&mut rng, d__);
                // ... and the same 16 strings as ONE parse_multi batch in shuffled order: the class of
                // each result must follow from the items of its own input, whatever came before it
                let mut order: Vec<u8> = (0u8..16).collect();
                rng.shuffle(&mut order);
                if let Some((mask, w)) = batch_failure(f, &k, &order) {
                    ctx.report.violate(
                        format!("C15|subset-batch|{}|{}", f.name(), w.split(" after ").next().unwrap_or("")),
                        format!("[{}] {}", f.name(), w),
                        J::obj()
                            .set("model", "subset-batch")
                            .set("format", f.name())
                            .set("mask", mask as usize)
                            .set("order", J::Arr(order.iter().map(|m| J::from(*m as usize)).collect()))
                            .set("value", ND::Task(k.clone()).to_json())
                            .set("why", w.clone()),
                    );
                }
                ctx.report.eval();
                ctx.report.bump("subset-batches through parse_multi");
                for mask in 0u8..16 {
                    ctx.report.eval();
                    ctx.report.bump(&format!("subset.{:04b}", mask));
                    ctx.report.nontrivial(&format!("subset|{}|{}|{}", f.name(), mask, k.canon()));
                    if let Some(w) = subset_failure(f, &k, mask) {
                        let sk = match crate::shrink::shrink_nd(&ND::Task(k.clone()), &mut |c| matches!(c, ND::Task(kk) if subset_failure(f, kk, mask).is_some()), 200) {
                            ND::Task(kk) => kk,
                            _ => k.clone(),
                        };
                        let w2 = subset_failure(f, &sk, mask).unwrap_or(w);
                        report(
                            ctx,
                            format!("C15|subset|{}|{:04b}|{}", f.name(), mask, sk.canon()),
                            format!("[{}] {}", f.name(), w2),
                            J::obj().set("model", "subset").set("format", f.name()).set("mask", mask as usize).set("value", ND::Task(sk).to_json()).set("why", w2.clone()),
                        );
                    }
                }
            }
        }
    }
    ctx.report.note(
        "rule",
        "a case = one enum value through all conversion laws, one lexical value through its laws, or one (task description, item subset) string through both parsers; every case is non-trivial; distinct by (model, format, canonical form[, subset])",
    );
    let _ = Rng::new(0);
}

pub fn replay(ctx: &mut Ctx, d: &J) -> Option<()> {
    if let Some(label) = jstr(d, "extreme") {
        let f = fmt_of(d)?;
        let nd = wrap_rotating(extreme_from_label(&label)?, d.get("wrap")?.as_i128()? as usize);
        if let Some(w) = on_big_stack(move || enum_laws(f, &nd)).unwrap_or_else(|| Some("the thread died".into())) {
            ctx.report.violate(format!("C15|{}|extreme|{}", f.name(), label), w, d.clone());
        }
        return Some(());
    }
    let f = fmt_of(d)?;
    match jstr(d, "model")?.as_str() {
        "enum" => {
            let nd = nd_from_json(d.get("value")?)?;
            if let Some(w) = enum_laws(f, &nd) {
                ctx.report.violate(format!("C15|enum|{}|{}", f.name(), nd.canon()), w, d.clone());
            }
        }
        "subset-batch" => {
            let nd = nd_from_json(d.get("value")?)?;
            let order: Vec<u8> = d.get("order")?.as_arr()?.iter().filter_map(|x| x.as_i128().map(|v| v as u8)).collect();
            if let ND::Task(k) = nd {
                if let Some((_, w)) = batch_failure(f, &k, &order) {
                    ctx.report.violate(format!("C15|subset-batch|{}", f.name()), w, d.clone());
                }
            }
        }
        "subset" => {
            let nd = nd_from_json(d.get("value")?)?;
            let mask = d.get("mask")?.as_i128()? as u8;
            if let ND::Task(k) = nd {
                if let Some(w) = subset_failure(f, &k, mask) {
                    ctx.report.violate(format!("C15|subset|{}|{:04b}|{}", f.name(), mask, k.canon()), w, d.clone());
                }
            }
        }
        _ => {}
    }
    Some(())
}
