//! C11 — ASCII output conforms to the published CommonNarsese grammar.
//!
//! Oracle 1: the PEG published in the README (read at run time, interpreted by `peg.rs`) accepts
//! the whole string, classifies it as the kind of the value and derives the same tree as the
//! library's ASCII lexical parser. Oracle 2: a hard-coded OpenNARS lexicon table — the string is
//! exactly the reference rendering of the value built from that table.

use super::common::*;
use crate::desc::*;
use crate::guard::{observe, Obs};
use crate::json::J;
use crate::lexgen::{self, LexGen};
use crate::names::*;
use crate::peg::{self, Grammar, Node};
use crate::shrink::shrink_nd;
use crate::Ctx;
use narsese::enum_narsese::Narsese;
use narsese::lexical::{Narsese as LexNarsese, Term as LexTerm};

// ---------------- hard-coded OpenNARS-compatible ASCII lexicon ----------------

fn ref_prefix(k: Kind) -> &'static str {
    match k {
        Kind::Word => "",
        Kind::Placeholder => "_",
        Kind::IVar => "$",
        Kind::DVar => "#",
        Kind::QVar => "?",
        Kind::Interval => "+",
        Kind::Operator => "^",
        _ => unreachable!(),
    }
}
fn ref_connecter(k: Kind) -> &'static str {
    match k {
        Kind::IntExt => "&",
        Kind::IntInt => "|",
        Kind::DiffExt => "-",
        Kind::DiffInt => "~",
        Kind::Product => "*",
        Kind::ImgExt => "/",
        Kind::ImgInt => "\\",
        Kind::Conj => "&&",
        Kind::Disj => "||",
        Kind::Neg => "--",
        Kind::ConjSeq => "&/",
        Kind::ConjPar => "&|",
        _ => unreachable!(),
    }
}
fn ref_copula(k: Kind) -> &'static str {
    match k {
        Kind::Inh => "-->",
        Kind::Sim => "<->",
        Kind::Impl => "==>",
        Kind::Equiv => "<=>",
        Kind::ImplPred => "=/>",
        Kind::ImplConc => "=|>",
        Kind::ImplRetro => "=\\>",
        Kind::EquivPred => "</>",
        Kind::EquivConc => "<|>",
        _ => unreachable!(),
    }
}
pub const REF_DERIVED_COPULAS: [&str; 4] = ["{--", "--]", "{-]", "<\\>"];

thread_local! {
    /// while set, `ref_term` sorts the members of unordered compounds in the tree it returns
    static SORT_REF: std::cell::Cell<bool> = const { std::cell::Cell::new(false) };
}

/// reference rendering (no spaces at all) + the lexical tree the published lexicon implies.
/// Unordered components are taken in the order `order` gives (the formatter's own order is read
/// back from the library's output, see `ref_term`).
fn ref_term(t: &TD, real: &narsese::enum_narsese::Term, out: &mut String) -> String {
    // the real term is walked in parallel so that unordered components come in the formatter's order
    let real_kids: Vec<&narsese::enum_narsese::Term> = if t.k.cat() == Cat::Atom { vec![] } else { real.get_components() };
    // match each real kid to a description kid by canonical form
    let mut pool: Vec<&TD> = t.kids.iter().collect();
    let mut ordered: Vec<(&TD, &narsese::enum_narsese::Term)> = vec![];
    for rk in &real_kids {
        let c = canon_real(rk);
        if let Some(pos) = pool.iter().position(|d| d.canon() == c) {
            ordered.push((pool[pos], rk));
            if !matches!(t.k.shape(), Shape::SetN) {
                pool.remove(pos);
            }
        }
    }
    match t.k.shape() {
        Shape::AtomNamed => {
            out.push_str(ref_prefix(t.k));
            out.push_str(&t.name);
            format!("A({:?},{:?})", ref_prefix(t.k), t.name)
        }
        Shape::AtomPlaceholder => {
            out.push('_');
            "A(\"_\",\"\")".to_string()
        }
        Shape::AtomInterval => {
            out.push('+');
            out.push_str(&t.num.to_string());
            format!("A(\"+\",{:?})", t.num.to_string())
        }
        _ if matches!(t.k, Kind::SetExt | Kind::SetInt) => {
            let (l, r) = if t.k == Kind::SetExt { ("{", "}") } else { ("[", "]") };
            out.push_str(l);
            let mut parts = vec![];
            for (i, (d, rk)) in ordered.iter().enumerate() {
                if i > 0 {
                    out.push(',');
                }
                parts.push(ref_term(d, rk, out));
            }
            out.push_str(r);
            if SORT_REF.with(|c| c.get()) {
                parts.sort();
            }
            format!("S({:?},{:?};{})", l, r, parts.join(","))
        }
        _ if t.k.cat() == Cat::Compound => {
            out.push('(');
            out.push_str(ref_connecter(t.k));
            let mut parts = vec![];
            let mut items: Vec<Option<(&TD, &narsese::enum_narsese::Term)>> = ordered.iter().map(|x| Some(*x)).collect();
            if t.k.shape() == Shape::Image {
                items.insert(t.num.min(items.len()), None);
            }
            for it in items {
                out.push(',');
                match it {
                    Some((d, rk)) => parts.push(ref_term(d, rk, out)),
                    None => {
                        out.push('_');
                        parts.push("A(\"_\",\"\")".to_string());
                    }
                }
            }
            out.push(')');
            if SORT_REF.with(|c| c.get()) && UNORDERED_CONNECTERS.contains(&ref_connecter(t.k)) {
                parts.sort();
            }
            format!("C({:?};{})", ref_connecter(t.k), parts.join(","))
        }
        _ => {
            out.push('<');
            // statements: stored operand order (symmetric ones included)
            let (a, b) = (&t.kids[0], &t.kids[1]);
            let (ra, rb) = (real_kids[0], real_kids[1]);
            let pa = ref_term(a, ra, out);
            out.push_str(ref_copula(t.k));
            let pb = ref_term(b, rb, out);
            out.push('>');
            format!("T({:?};{},{})", ref_copula(t.k), pa, pb)
        }
    }
}

fn ref_stamp(s: StampD) -> String {
    match s {
        StampD::Eternal => String::new(),
        StampD::Past => ":\\:".into(),
        StampD::Present => ":|:".into(),
        StampD::Future => ":/:".into(),
        StampD::Fixed(t) => format!(":!{}:", t),
    }
}

/// (reference text without spaces, reference lexical tree)
fn reference(nd: &ND, real: &narsese::enum_narsese::Narsese) -> (String, String) {
    use narsese::api::GetTerm;
    let mut text = String::new();
    let floats = |v: &[f64]| -> Vec<String> { v.iter().map(|f| format!("{}", f)).collect() };
    match nd {
        ND::Term(t) => {
            let tree = ref_term(t, real.get_term(), &mut text);
            (text, format!("Term({})", tree))
        }
        ND::Sent(s) | ND::Task(KD { sent: s, .. }) => {
            let mut budget_tree = None;
            if let ND::Task(k) = nd {
                let b = floats(&k.budget);
                text.push('$');
                text.push_str(&b.join(";"));
                text.push('$');
                budget_tree = Some(b);
            }
            let tree = ref_term(&s.term, real.get_term(), &mut text);
            text.push_str(s.punct.tag());
            let st = ref_stamp(s.stamp);
            text.push_str(&st);
            let tr = if s.punct.has_truth() { floats(&s.truth) } else { vec![] };
            if !tr.is_empty() {
                text.push('%');
                text.push_str(&tr.join(";"));
                text.push('%');
            }
            let sen = format!("Sen({}|{:?}|{:?}|{:?})", tree, s.punct.tag(), st, tr);
            match budget_tree {
                Some(b) => (text, format!("Task({:?}|{})", b, sen)),
                None => (text, sen),
            }
        }
    }
}

const UNORDERED_CONNECTERS: [&str; 5] = ["&", "|", "&&", "||", "&|"];

// ---------------- PEG tree -> lexical structural rendering ----------------

fn peg_term(n: &Node, input: &[char], sort: bool) -> Result<String, String> {
    // n.rule == "term"
    let inner = n.kids.first().ok_or("term without a child")?;
    match inner.rule.as_str() {
        "atom" => {
            let text = inner.text(input);
            let prefix = inner.kid("atom_prefix").map(|k| k.text(input));
            let content = inner.kid("atom_content").map(|k| k.text(input));
            match (prefix, content) {
                (Some(p), Some(c)) => Ok(format!("A({:?},{:?})", p, c)),
                (None, Some(c)) => Ok(format!("A(\"\",{:?})", c)),
                _ => {
                    // "_"+ alternative
                    let rest: String = text.chars().skip(1).collect();
                    Ok(format!("A(\"_\",{:?})", rest))
                }
            }
        }
        "compound" => {
            let terms: Result<Vec<String>, String> = inner.kids_of("term").map(|k| peg_term(k, input, sort)).collect();
            let mut terms = terms?;
            match inner.kid("connecter") {
                Some(c) => {
                    let ct = c.text(input);
                    if sort && UNORDERED_CONNECTERS.contains(&ct.as_str()) {
                        terms.sort();
                    }
                    Ok(format!("C({:?};{})", ct, terms.join(",")))
                }
                None => {
                    if sort {
                        terms.sort();
                    }
                    let text = inner.text(input);
                    let l: String = text.chars().take(1).collect();
                    let r: String = text.chars().last().map(|c| c.to_string()).unwrap_or_default();
                    Ok(format!("S({:?},{:?};{})", l, r, terms.join(",")))
                }
            }
        }
        "statement" => {
            let ts: Vec<&Node> = inner.kids_of("term").collect();
            if ts.len() != 2 {
                return Err("statement without two terms".into());
            }
            let c = inner.kid("copula").ok_or("statement without copula")?;
            Ok(format!("T({:?};{},{})", c.text(input), peg_term(ts[0], input, sort)?, peg_term(ts[1], input, sort)?))
        }
        other => Err(format!("unexpected rule {} under term", other)),
    }
}

fn peg_sentence(n: &Node, input: &[char], sort: bool) -> Result<String, String> {
    let term = peg_term(n.kid("term").ok_or("sentence without term")?, input, sort)?;
    let p = n.kid("punctuation").ok_or("sentence without punctuation")?.text(input);
    let stamp = n.kid("stamp").map(|s| s.text(input).chars().filter(|c| !c.is_whitespace()).collect::<String>()).unwrap_or_default();
    let truth: Vec<String> = n.kid("truth").map(|t| t.kids_of("truth_budget_term").map(|k| k.text(input)).collect()).unwrap_or_default();
    Ok(format!("Sen({}|{:?}|{:?}|{:?})", term, p, stamp, truth))
}

/// (kind, structural rendering) of the PEG parse; Err when the grammar does not accept all of `s`
/// (`sort`: the members of sets and of the unordered connecters `&`, `|`, `&&`, `||`, `&|` are sorted)
pub fn peg_parse(g: &Grammar, s: &str, sort: bool) -> Result<(String, String), String> {
    let input: Vec<char> = s.chars().collect();
    let (end, nodes) = g.run("narsese", &input).ok_or_else(|| "the published grammar rejects the string".to_string())?;
    // trailing whitespace is insignificant
    let mut e = end;
    while e < input.len() && input[e].is_whitespace() {
        e += 1;
    }
    if e != input.len() {
        return Err(format!("the published grammar accepts only the first {} of {} characters", end, input.len()));
    }
    let top = nodes.first().ok_or("no parse tree")?;
    let inner = top.kids.first().ok_or("narsese without a child")?;
    match inner.rule.as_str() {
        "term" => Ok(("term".into(), format!("Term({})", peg_term(inner, &input, sort)?))),
        "sentence" => Ok(("sentence".into(), peg_sentence(inner, &input, sort)?)),
        "task" => {
            let b = inner.kid("budget").ok_or("task without budget")?;
            let nums: Vec<String> = b.kid("budget_content").map(|c| c.kids_of("truth_budget_term").map(|k| k.text(&input)).collect()).unwrap_or_default();
            let sen = peg_sentence(inner.kid("sentence").ok_or("task without sentence")?, &input, sort)?;
            Ok(("task".into(), format!("Task({:?}|{})", nums, sen)))
        }
        other => Err(format!("unexpected top rule {}", other)),
    }
}

fn lex_parse_tree(s: &str) -> Result<String, String> {
    match observe(|| Fmt::Ascii.l().parse(s).map(|v| lexgen::lex_canon(&v)).map_err(|e| e.to_string())) {
        Obs::Ret(r) => r,
        Obs::Panic(p) => Err(format!("lexical parser panicked: {}", p)),
    }
}

/// all checks on the string produced for a value of kind `kind`; `ref_tree` = independent expectation
fn string_failure(g: &Grammar, s: &str, kind: &str, expect_tree: Option<&str>) -> Option<String> {
    string_failure2(g, s, kind, expect_tree, None)
}

/// `expect_sorted`: the expectation with the members of unordered compounds sorted - used when the
/// tree differs from `expect_tree` (which lists them in the order the value iterates them): the order
/// in which a formatter writes the members of an unordered compound is its own choice
fn string_failure2(g: &Grammar, s: &str, kind: &str, expect_tree: Option<&str>, expect_sorted: Option<&str>) -> Option<String> {
    let (pk, ptree) = match peg_parse(g, s, false) {
        Ok(x) => x,
        Err(e) => return Some(format!("{} for {:?}", e, s)),
    };
    if pk != kind {
        return Some(format!("the published grammar classifies {:?} as a {} but the value is a {}", s, pk, kind));
    }
    let ltree = match lex_parse_tree(s) {
        Ok(t) => t,
        Err(e) => return Some(format!("the ASCII lexical parser rejects {:?} which the grammar accepts: {}", s, e)),
    };
    if ltree != ptree {
        return Some(format!("trees differ for {:?}: grammar {} vs lexical parser {}", s, ptree, ltree));
    }
    if let Some(want) = expect_tree {
        if ptree != want && norm_nums(&ptree) != norm_nums(want) {
            if let Some(ws) = expect_sorted {
                if let Ok((_, sorted)) = peg_parse(g, s, true) {
                    if sorted == ws || norm_nums(&sorted) == norm_nums(ws) {
                        return None;
                    }
                }
            }
            return Some(format!("tree of {:?} is {} but the lexicon implies {}", s, ptree, want));
        }
    }
    None
}

/// split a text into runs of [0-9.] and runs of everything else
fn runs(s: &str) -> Vec<(bool, String)> {
    let mut out: Vec<(bool, String)> = vec![];
    for c in s.chars() {
        let num = c.is_ascii_digit() || c == '.';
        match out.last_mut() {
            Some((n, t)) if *n == num => t.push(c),
            _ => out.push((num, c.to_string())),
        }
    }
    out
}

/// the formatter's text equals the lexicon rendering: every keyword / name run identical, every
/// numeric run identical or — for decimal numbers — equal in value (the property fixes the
/// keywords and the layout, not the spelling of a float)
fn same_up_to_float_spelling(a: &str, b: &str) -> bool {
    let (ra, rb) = (runs(a), runs(b));
    if ra.len() != rb.len() {
        return false;
    }
    ra.iter().zip(rb.iter()).all(|((na, ta), (nb, tb))| {
        na == nb
            && (ta == tb
                || (*na && (ta.contains('.') || tb.contains('.')) && matches!((ta.parse::<f64>(), tb.parse::<f64>()), (Ok(x), Ok(y)) if x == y)))
    })
}

/// normalise the decimal literals inside a structural rendering (`"0.50"` -> `"0.5"`)
fn norm_nums(tree: &str) -> String {
    let mut out = String::new();
    let mut rest = tree;
    while let Some(i) = rest.find('"') {
        out.push_str(&rest[..=i]);
        rest = &rest[i + 1..];
        if let Some(j) = rest.find('"') {
            let lit = &rest[..j];
            if !lit.is_empty() && lit.contains('.') && lit.chars().all(|c| c.is_ascii_digit() || c == '.') {
                match lit.parse::<f64>() {
                    Ok(x) => out.push_str(&format!("{}", x)),
                    Err(_) => out.push_str(lit),
                }
            } else {
                out.push_str(lit);
            }
            out.push('"');
            rest = &rest[j + 1..];
        }
    }
    out.push_str(rest);
    out
}

fn enum_failure(g: &Grammar, nd: &ND) -> Option<String> {
    let real = nd.build();
    let s = match enum_format(Fmt::Ascii, &real) {
        Ok(s) => s,
        Err(p) => return Some(format!("formatting panicked: {}", p)),
    };
    let (ref_text, ref_tree) = reference(nd, &real);
    // the same expectation with the members of unordered compounds sorted (the reference text and tree
    // list them in the order the value iterates them, which a formatter need not follow)
    let ref_sorted = {
        SORT_REF.with(|c| c.set(true));
        let r = reference(nd, &real).1;
        SORT_REF.with(|c| c.set(false));
        r
    };
    let stripped: String = s.chars().filter(|c| *c != ' ').collect();
    if !same_up_to_float_spelling(&stripped, &ref_text) {
        // not the rendering in iteration order: acceptable only as another order of unordered members
        let reordered = matches!(peg_parse(g, &s, true), Ok((_, t)) if t == ref_sorted || norm_nums(&t) == norm_nums(&ref_sorted));
        if !reordered {
            return Some(format!("the ASCII formatter wrote {:?}; the OpenNARS lexicon gives {:?} (spaces and the order of unordered members ignored)", s, ref_text));
        }
    }
    if let Some(w) = string_failure2(g, &s, nd.kind_name(), Some(&ref_tree), Some(&ref_sorted)) {
        return Some(w);
    }
    // the other ways to the same formatter (kind-specific method, `format(&value)`, `FormatTo`)
    use narsese::api::FormatTo;
    let e = Fmt::Ascii.e();
    let others: Vec<(&str, Obs<String>)> = match &real {
        Narsese::Term(t) => vec![("format_term", observe(|| e.format_term(t))), ("format(&term)", observe(|| e.format(t))), ("term.format_to", observe(|| t.format_to(e)))],
        Narsese::Sentence(t) => vec![("format_sentence", observe(|| e.format_sentence(t))), ("format(&sentence)", observe(|| e.format(t))), ("sentence.format_to", observe(|| t.format_to(e)))],
        Narsese::Task(t) => vec![("format_task", observe(|| e.format_task(t))), ("format(&task)", observe(|| e.format(t))), ("task.format_to", observe(|| t.format_to(e)))],
    };
    let wrapper = ("format(&narsese)", observe(|| e.format(&real)));
    for (name, o) in others.into_iter().chain(std::iter::once(wrapper)) {
        match o {
            Obs::Ret(t) if t == s => {}
            Obs::Ret(t) => {
                if let Some(w) = string_failure2(g, &t, nd.kind_name(), Some(&ref_tree), Some(&ref_sorted)) {
                    return Some(format!("through {}: {}", name, w));
                }
            }
            Obs::Panic(p) => return Some(format!("enum {} panicked: {}", name, p)),
        }
    }
    None
}

fn lex_failure(g: &Grammar, x: &LexNarsese) -> Option<String> {
    let s = match observe(|| Fmt::Ascii.l().format_narsese(x)) {
        Obs::Ret(s) => s,
        Obs::Panic(p) => return Some(format!("lexical formatting panicked: {}", p)),
    };
    let kind = match x {
        LexNarsese::Term(_) => "term",
        LexNarsese::Sentence(_) => "sentence",
        LexNarsese::Task(_) => "task",
    };
    let want = lexgen::lex_canon(x);
    if let Some(w) = string_failure(g, &s, kind, Some(&want)) {
        return Some(w);
    }
    // the other ways to the same formatter: the kind-specific method, `format(&value)`, and the
    // `FormatTo` trait on the value and on the wrapper; whatever differs must conform on its own
    use narsese::api::FormatTo;
    let l = Fmt::Ascii.l();
    let others: Vec<(&str, Obs<String>)> = match x {
        LexNarsese::Term(t) => vec![("format_term", observe(|| l.format_term(t))), ("format(&term)", observe(|| l.format(t))), ("term.format_to", observe(|| t.format_to(l)))],
        LexNarsese::Sentence(t) => vec![("format_sentence", observe(|| l.format_sentence(t))), ("format(&sentence)", observe(|| l.format(t))), ("sentence.format_to", observe(|| t.format_to(l)))],
        LexNarsese::Task(t) => vec![("format_task", observe(|| l.format_task(t))), ("format(&task)", observe(|| l.format(t))), ("task.format_to", observe(|| t.format_to(l)))],
    };
    let wrapper = ("format(&narsese)", observe(|| l.format(x)));
    for (name, o) in others.into_iter().chain(std::iter::once(wrapper)) {
        match o {
            Obs::Ret(t) if t == s => {}
            Obs::Ret(t) => {
                if let Some(w) = string_failure(g, &t, kind, Some(&want)) {
                    return Some(format!("through {}: {}", name, w));
                }
            }
            Obs::Panic(p) => return Some(format!("lexical {} panicked: {}", name, p)),
        }
    }
    None
}

/// the vocabulary the lexical ASCII instance must have, from the hard-coded table
fn lexicon_table_check(ctx: &mut Ctx) {
    let v = lexgen::Vocab::of(Fmt::Ascii);
    let mut want_conn: Vec<&str> = vec!["&", "|", "-", "~", "*", "/", "\\", "&&", "||", "--", "&/", "&|"];
    let mut want_cop: Vec<&str> = vec!["-->", "<->", "==>", "<=>", "{--", "--]", "{-]", "=/>", "=|>", "=\\>", "</>", "<|>", "<\\>"];
    let mut want_pre: Vec<&str> = vec!["", "_", "$", "#", "?", "+", "^"];
    let mut want_punct: Vec<&str> = vec![".", "!", "?", "@"];
    let cmp = |name: &str, got: &Vec<String>, want: &mut Vec<&str>, ctx: &mut Ctx| {
        let mut g: Vec<&str> = got.iter().map(|s| s.as_str()).collect();
        g.sort();
        want.sort();
        ctx.report.eval();
        ctx.report.bump("family.lexicon-table");
        if g != *want {
            ctx.report.violate(
                format!("C11|lexicon|{}", name),
                format!("the lexical ASCII {} are {:?}; the OpenNARS lexicon has {:?}", name, g, want),
                J::obj().set("kind", "lexicon").set("what", name),
            );
        }
    };
    cmp("connecters", &v.connecters, &mut want_conn, ctx);
    cmp("copulas", &v.copulas, &mut want_cop, ctx);
    cmp("atom prefixes", &v.prefixes, &mut want_pre, ctx);
    cmp("punctuations", &v.punctuations, &mut want_punct, ctx);
    let mut sb: Vec<String> = v.set_brackets.iter().map(|(a, b)| format!("{}{}", a, b)).collect();
    sb.sort();
    if sb != vec!["[]".to_string(), "{}".to_string()] {
        ctx.report.violate("C11|lexicon|set-brackets".into(), format!("lexical ASCII set brackets are {:?}", sb), J::obj().set("kind", "lexicon").set("what", "set brackets"));
    }
    let mut st: Vec<String> = v.stamp_forms.iter().map(|(a, b)| format!("{}…{}", a, b)).collect();
    st.sort();
    let mut want_st = vec!["…:/:".to_string(), "…:\\:".to_string(), "…:|:".to_string(), ":!…:".to_string()];
    want_st.sort();
    if st != want_st {
        ctx.report.violate("C11|lexicon|stamps".into(), format!("lexical ASCII stamp forms are {:?}, expected {:?}", st, want_st), J::obj().set("kind", "lexicon").set("what", "stamps"));
    }
    let l = Fmt::Ascii.l();
    let fixed = [
        ("compound brackets", format!("{}{}", l.compound.brackets.0, l.compound.brackets.1), "()"),
        ("separator", l.compound.separator.clone(), ","),
        ("statement brackets", format!("{}{}", l.statement.brackets.0, l.statement.brackets.1), "<>"),
        ("truth brackets", format!("{}{}", l.sentence.truth_brackets.0, l.sentence.truth_brackets.1), "%%"),
        ("truth separator", l.sentence.truth_separator.clone(), ";"),
        ("budget brackets", format!("{}{}", l.task.budget_brackets.0, l.task.budget_brackets.1), "$$"),
        ("budget separator", l.task.budget_separator.clone(), ";"),
    ];
    for (name, got, want) in fixed {
        ctx.report.eval();
        if got != want {
            ctx.report.violate(format!("C11|lexicon|{}", name), format!("lexical ASCII {} is {:?}, the lexicon has {:?}", name, got, want), J::obj().set("kind", "lexicon").set("what", name));
        }
    }
}

pub fn load_grammar(ctx: &mut Ctx) -> Grammar {
    let repo = std::env::var("VERIF_REPO").unwrap_or_else(|_| "/repo".into());
    let path = format!("{}/README.md", repo);
    if let Ok(text) = std::fs::read_to_string(&path) {
        if let Some(block) = peg::extract_pest_block(&text) {
            match Grammar::parse(&block) {
                Ok(g) => {
                    ctx.report.note("grammar_source", J::from(format!("```pest block of {} ({} rules)", path, g.rules.len())));
                    return g;
                }
                Err(e) => ctx.report.note("grammar_readme_error", J::from(e)),
            }
        }
    }
    ctx.report.note("grammar_source", "embedded copy of the published grammar (README block not readable)");
    Grammar::parse(peg::EMBEDDED_GRAMMAR).expect("embedded grammar parses")
}

/// C11 restricts names to letters, digits, '_' and inner '-': drop every other character (the
/// generators' wide-Unicode names may contain emoji, which are SYMBOLs for the grammar)
fn restrict_names(t: &mut TD) {
    use crate::unicode_tables as ut;
    if t.k.shape() == Shape::AtomNamed {
        let kept: String = t.name.chars().filter(|c| ut::in_table(ut::LETTER, *c) || ut::in_table(ut::NUMBER, *c) || *c == '_' || *c == '-').collect();
        let kept = kept.trim_matches('-').trim_start_matches('_').to_string();
        t.name = if kept.is_empty() { "a".to_string() } else { kept };
    }
    for k in t.kids.iter_mut() {
        restrict_names(k);
    }
}

fn check_enum(ctx: &mut Ctx, g: &Grammar, nd: &ND, family: &str) {
    ctx.report.eval();
    ctx.report.bump(&format!("family.{}", family));
    ctx.report.bump(&format!("kind.{}", nd.kind_name()));
    if !matches!(nd, ND::Term(t) if t.kids.is_empty()) {
        ctx.report.nontrivial(&format!("enum|{}", nd.canon()));
    }
    nd.term().visit(&mut |t| ctx.report.bump(&format!("ctor.{}", t.k.tag())));
    ctx.report.sample(|| J::obj().set("model", "enum").set("string", enum_format(Fmt::Ascii, &nd.build()).unwrap_or_default()));
    if let Some(w) = enum_failure(g, nd) {
        let small = shrink_nd(nd, &mut |c| enum_failure(g, c).is_some(), 250);
        let w2 = enum_failure(g, &small).unwrap_or(w);
        ctx.report.violate(
            format!("C11|enum|{}", small.canon()),
            w2.clone(),
            J::obj().set("kind", "enum").set("value", small.to_json()).set("why", w2),
        );
    }
}

pub fn run(ctx: &mut Ctx) {
    let g = load_grammar(ctx);
    if ctx.shard == 0 {
        lexicon_table_check(ctx);
    }
    let names = c11_names();
    // (1) every constructor / punctuation / stamp kind / truth and budget layout (fixed sweep)
    let mut idx = 0usize;
    let base = base_atoms(&["A", "B"]);
    let mut items: Vec<TD> = base.clone();
    items.push(TD::placeholder());
    items.push(TD::interval(0));
    items.extend(universe_over(&base[..3], 2, false));
    for (i, t) in items.into_iter().enumerate() {
        idx += 1;
        if ctx.mine(idx) {
            let nd = wrap_rotating(t.clone(), i);
            check_enum(ctx, &g, &nd, "universe1");
            check_enum(ctx, &g, &ND::Term(t), "universe1");
        }
    }
    let mut rng = ctx.rng(0xC11);
    let gen = Gen { names: &names, max_depth: 6, max_arity: 4, placeholders: true, set_bias: false };
    let n = ctx.share(1_200_000, 12_000_000);
    let lg = {
        let mut l = LexGen::new(Fmt::Ascii, false);
        l.names = names.clone();
        l
    };
    for i in 0..n {
        if ctx.out_of_time() {
            ctx.report.inconclusive.push(format!("random workload cut at {} of {}", i, n));
            break;
        }
        if i % 2 == 0 {
            let d__ = 1 + rng.below(5);
            let mut nd = gen.narsese(&mut rng, d__);
            restrict_names(nd.term_mut());
            check_enum(ctx, &g, &nd, "random-enum");
        } else {
            let d__ = 1 + rng.below(4);
            let x = lg.narsese(&mut rng, d__);
            ctx.report.eval();
            ctx.report.bump("family.random-lexical");
            if !matches!(x, LexNarsese::Term(LexTerm::Atom { .. })) {
                ctx.report.nontrivial(&format!("lex|{}", lexgen::lex_canon(&x)));
            }
            if let Some(w) = lex_failure(&g, &x) {
                let small = {
                    // reuse the C02 shrinker skeleton with this predicate
                    let mut cur = x.clone();
                    let mut budget = 300;
                    loop {
                        let mut progressed = false;
                        for c in super::c02::shrink_candidates(&cur) {
                            if budget == 0 {
                                break;
                            }
                            budget -= 1;
                            if lexgen::lex_canon(&c).len() < lexgen::lex_canon(&cur).len() && lex_failure(&g, &c).is_some() {
                                cur = c;
                                progressed = true;
                                break;
                            }
                        }
                        if !progressed || budget == 0 {
                            break cur;
                        }
                    }
                };
                let w2 = lex_failure(&g, &small).unwrap_or(w);
                ctx.report.violate(
                    format!("C11|lexical|{}", lexgen::lex_canon(&small)),
                    w2.clone(),
                    J::obj().set("kind", "lexical").set("lexical", lexgen::lex_json(&small)).set("why", w2),
                );
            }
        }
    }
    ctx.report.note(
        "rule",
        "a case = one ASCII-formatted value checked against the published PEG (acceptance, kind, tree = lexical parser tree) and the hard-coded OpenNARS lexicon rendering; non-trivial = not a bare atom; distinct by canonical form",
    );
}

pub fn replay(ctx: &mut Ctx, d: &J) -> Option<()> {
    let g = load_grammar(ctx);
    match jstr(d, "kind")?.as_str() {
        "enum" => {
            let nd = nd_from_json(d.get("value")?)?;
            if let Some(w) = enum_failure(&g, &nd) {
                ctx.report.violate(format!("C11|enum|{}", nd.canon()), w, d.clone());
            }
        }
        "lexical" => {
            let x = lexgen::lex_from_json(d.get("lexical")?)?;
            if let Some(w) = lex_failure(&g, &x) {
                ctx.report.violate(format!("C11|lexical|{}", lexgen::lex_canon(&x)), w, d.clone());
            }
        }
        _ => lexicon_table_check(ctx),
    }
    Some(())
}
