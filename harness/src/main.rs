#![allow(dead_code)]
//! nvmon — runtime monitors for the Narsese.rs properties C01..C17.
//!
//! usage: nvmon <ID> --tier quick|thorough --seed N --shard i/n --out <dir> [--replay <file>]
//!        nvmon merge-fps <file>...         (prints the number of distinct u64 fingerprints)
//!        nvmon merge-c16 <file>...         (cross-shard Typst injectivity: COLLISION lines, then MERGED <records> <distinct texts>)

mod desc;
mod guard;
mod json;
mod names;
mod props;
mod report;
mod rng;
mod shrink;
mod lexgen;
mod strings;
mod surface;
mod peg;
mod unicode_tables;

use report::Report;
use std::time::{Duration, Instant};

pub struct Ctx {
    pub id: String,
    pub thorough: bool,
    pub seed: u64,
    pub shard: usize,
    pub nshards: usize,
    pub out_dir: String,
    pub report: Report,
    pub journal: guard::Journal,
    pub started: Instant,
    /// soft wall-clock budget for open-ended workloads (seconds)
    pub time_budget: Duration,
    /// workload scale override (percent), VERIF_SCALE
    pub scale_pct: u64,
}

impl Ctx {
    /// number of cases this shard should run for a workload of `quick` / `thorough` total cases
    pub fn share(&self, quick: u64, thorough: u64) -> u64 {
        let total = if self.thorough { thorough } else { quick };
        let total = total * self.scale_pct / 100;
        (total / self.nshards as u64).max(1)
    }
    /// does item `i` of an enumerated workload belong to this shard?
    pub fn mine(&self, i: usize) -> bool {
        i % self.nshards == self.shard
    }
    pub fn rng(&self, tag: u64) -> rng::Rng {
        rng::Rng::new(
            self.seed
                .wrapping_mul(0x9E37_79B9_7F4A_7C15)
                .wrapping_add((self.shard as u64) << 32)
                .wrapping_add(tag),
        )
    }
    pub fn out_of_time(&self) -> bool {
        self.started.elapsed() > self.time_budget
    }
}

fn main() {
    let args: Vec<String> = std::env::args().collect();
    if args.len() >= 2 && args[1] == "merge-fps" {
        let mut all: Vec<u64> = vec![];
        for f in &args[2..] {
            if let Ok(bytes) = std::fs::read(f) {
                for c in bytes.chunks_exact(8) {
                    all.push(u64::from_le_bytes(c.try_into().unwrap()));
                }
            }
        }
        all.sort_unstable();
        all.dedup();
        println!("{}", all.len());
        return;
    }
    if args.len() >= 2 && args[1] == "merge-c16" {
        // offline injectivity check over the text logs of all workers: the same text fingerprint
        // with two different canonical-key fingerprints is a candidate collision
        let mut seen: std::collections::HashMap<u64, (u64, usize)> = std::collections::HashMap::new();
        let (mut records, mut shown) = (0usize, 0usize);
        for (fi, f) in args[2..].iter().enumerate() {
            if let Ok(bytes) = std::fs::read(f) {
                for c in bytes.chunks_exact(16) {
                    let t = u64::from_le_bytes(c[..8].try_into().unwrap());
                    let k = u64::from_le_bytes(c[8..].try_into().unwrap());
                    records += 1;
                    match seen.get(&t) {
                        Some((k0, f0)) if *k0 != k => {
                            if shown < 8 {
                                println!("COLLISION {} {} {} {} {}", t, k0, f0, k, fi);
                                shown += 1;
                            }
                        }
                        Some(_) => {}
                        None => {
                            seen.insert(t, (k, fi));
                        }
                    }
                }
            }
        }
        println!("MERGED {} {}", records, seen.len());
        return;
    }
    if args.len() >= 2 && args[1] == "fuzz-dict" {
        // libFuzzer dictionary: every keyword of the three formats
        let mut all: Vec<&str> = vec![];
        for f in names::ALL_FMT {
            all.extend(names::keywords(f.e()));
        }
        all.sort();
        all.dedup();
        for k in all {
            let mut esc = String::new();
            for b in k.bytes() {
                if b == b'"' || b == b'\\' {
                    esc.push('\\');
                    esc.push(b as char);
                } else if (0x20..0x7f).contains(&b) {
                    esc.push(b as char);
                } else {
                    esc.push_str(&format!("\\x{:02x}", b));
                }
            }
            println!("\"{}\"", esc);
        }
        return;
    }
    if args.len() >= 4 && args[1] == "fuzz-corpus" {
        // seed corpus: byte 0 = format index, rest = a well-formed or mutated string
        let dir = &args[2];
        let n: usize = args[3].parse().unwrap_or(300);
        let _ = std::fs::create_dir_all(dir);
        let mut rng = rng::Rng::new(0xF022);
        let gens: Vec<strings::StrGen> = names::ALL_FMT.iter().map(|f| strings::StrGen::new(*f)).collect();
        for i in 0..n {
            let fi = i % 3;
            let g = &gens[fi];
            let base = g.wellformed(&mut rng, 1 + i % 4);
            let s = match i % 5 {
                0 | 1 => base,
                2 => g.mutate(&base, &mut rng),
                3 => g.soup(&mut rng),
                _ => g.deep_nesting()[i % 40].clone(),
            };
            let mut bytes = vec![fi as u8];
            bytes.extend_from_slice(s.as_bytes());
            let _ = std::fs::write(format!("{}/seed-{:04}", dir, i), bytes);
        }
        return;
    }
    if args.len() < 2 {
        eprintln!("usage: nvmon <ID> --tier quick|thorough --seed N --shard i/n --out <dir> [--replay file]");
        std::process::exit(2);
    }
    let id = args[1].clone();
    let mut tier = "quick".to_string();
    let mut seed = 0u64;
    let mut shard = 0usize;
    let mut nshards = 1usize;
    let mut out_dir = ".".to_string();
    let mut replay: Option<String> = None;
    let mut budget_s = 0u64;
    let mut i = 2;
    while i < args.len() {
        match args[i].as_str() {
            "--tier" => {
                tier = args[i + 1].clone();
                i += 1;
            }
            "--seed" => {
                seed = args[i + 1].parse().unwrap_or(0);
                i += 1;
            }
            "--shard" => {
                let p: Vec<&str> = args[i + 1].split('/').collect();
                shard = p[0].parse().unwrap();
                nshards = p[1].parse().unwrap();
                i += 1;
            }
            "--out" => {
                out_dir = args[i + 1].clone();
                i += 1;
            }
            "--replay" => {
                replay = Some(args[i + 1].clone());
                i += 1;
            }
            "--budget-s" => {
                budget_s = args[i + 1].parse().unwrap_or(0);
                i += 1;
            }
            other => {
                eprintln!("unknown argument {other}");
                std::process::exit(2);
            }
        }
        i += 1;
    }
    let thorough = tier == "thorough";
    if budget_s == 0 {
        budget_s = if thorough { 900 } else { 100 };
    }
    let scale_pct = std::env::var("VERIF_SCALE").ok().and_then(|s| s.parse().ok()).unwrap_or(100);
    let journal_path = format!("{}/journal-{}.txt", out_dir, shard);
    let hang_path = format!("{}/hang-{}.txt", out_dir, shard);
    let mut ctx = Ctx {
        id: id.clone(),
        thorough,
        seed,
        shard,
        nshards,
        out_dir: out_dir.clone(),
        report: Report::new(&id),
        journal: guard::Journal::open(if replay.is_none() { Some(&journal_path) } else { None }),
        started: Instant::now(),
        time_budget: Duration::from_secs(budget_s),
        scale_pct,
    };
    props::common::THOROUGH.store(thorough, std::sync::atomic::Ordering::Relaxed);
    guard::install_panic_hook();
    let per_call_limit = std::env::var("VERIF_CALL_LIMIT_S").ok().and_then(|s| s.parse().ok()).unwrap_or(45u64);
    if !cfg!(miri) {
        guard::start_watchdog(Duration::from_secs(per_call_limit), Some(hang_path));
    }

    // Every worker process begins with a little work in one format (or none), rotating with shard and
    // seed: whatever the library initialises once per process or per thread is then initialised from a
    // different format in different workers.  A replay starts the way the worker that found it did.
    let first_of = |name: &str| -> Option<names::Fmt> { names::Fmt::from_name(name) };
    if replay.is_none() {
        let g = ["none", "ascii", "latex", "han"][((shard as u64 + seed) % 4) as usize];
        ctx.report.process_first_format = g;
        ctx.report.bump(&format!("worker-process.first-work-in.{}", g));
        ctx.report.bump(if cfg!(debug_assertions) { "worker-process.build.checked(debug-assertions+overflow-checks)" } else { "worker-process.build.plain-release" });
        if let Some(f) = first_of(g) {
            props::common::prelude(f);
        }
    }

    if let Some(path) = replay {
        let text = std::fs::read_to_string(&path).unwrap_or_else(|e| {
            eprintln!("cannot read replay {path}: {e}");
            std::process::exit(2)
        });
        let j = json::parse(&text).unwrap_or_else(|e| {
            eprintln!("cannot parse replay {path}: {e}");
            std::process::exit(2)
        });
        if let Some(f) = j.get("detail").and_then(|d| d.get("process_first_format")).and_then(|x| x.as_str()).and_then(first_of) {
            props::common::prelude(f);
        }
        let reproduced = props::replay(&mut ctx, &j);
        match reproduced {
            Some(true) => {
                println!("REPRODUCED property={} replay={}", id, path);
                for v in &ctx.report.violations {
                    println!("  {}", v.what);
                }
                std::process::exit(1);
            }
            Some(false) => {
                println!("NOT-REPRODUCED property={} replay={}", id, path);
                std::process::exit(0);
            }
            None => {
                eprintln!("replay format not understood for {}", id);
                std::process::exit(2);
            }
        }
    }

    if !props::run(&mut ctx) {
        eprintln!("unknown property id {id}");
        std::process::exit(2);
    }
    ctx.journal.done();
    if !props::common::big_stacks_available() {
        ctx.report.inconclusive.push("threads with a large stack cannot be started here: the extreme-size families (terms nested 129..600 deep) were skipped".into());
    }
    let out_json = format!("{}/shard-{}.json", out_dir, shard);
    let out_fps = format!("{}/shard-{}.fps", out_dir, shard);
    ctx.report.note("wall_s", ctx.started.elapsed().as_secs_f64());
    ctx.report.hist_max("max.observed_call_us", guard::max_call_us());
    if let Err(e) = ctx.report.write(&out_json, &out_fps) {
        eprintln!("cannot write report: {e}");
        std::process::exit(2);
    }
}
