//! Description trees for enum Narsese values, their construction through the public API,
//! and the harness's own canonical (semantic) form. Never uses the crate's `==` / `Hash` on terms.

use crate::json::J;
use crate::rng::Rng;
use narsese::api::{GetBudget, GetPunctuation, GetStamp, GetTerm, GetTruth};
use narsese::enum_narsese::{Budget, Narsese, Punctuation, Sentence, Stamp, Task, Term, Truth};

#[derive(Clone, Copy, Debug, PartialEq, Eq, Hash, PartialOrd, Ord)]
#[repr(u8)]
pub enum Kind {
    Word,
    Placeholder,
    IVar,
    DVar,
    QVar,
    Interval,
    Operator,
    SetExt,
    SetInt,
    IntExt,
    IntInt,
    DiffExt,
    DiffInt,
    Product,
    ImgExt,
    ImgInt,
    Conj,
    Disj,
    Neg,
    ConjSeq,
    ConjPar,
    Inh,
    Sim,
    Impl,
    Equiv,
    ImplPred,
    ImplConc,
    ImplRetro,
    EquivPred,
    EquivConc,
}

pub const ALL_KINDS: [Kind; 30] = [
    Kind::Word,
    Kind::Placeholder,
    Kind::IVar,
    Kind::DVar,
    Kind::QVar,
    Kind::Interval,
    Kind::Operator,
    Kind::SetExt,
    Kind::SetInt,
    Kind::IntExt,
    Kind::IntInt,
    Kind::DiffExt,
    Kind::DiffInt,
    Kind::Product,
    Kind::ImgExt,
    Kind::ImgInt,
    Kind::Conj,
    Kind::Disj,
    Kind::Neg,
    Kind::ConjSeq,
    Kind::ConjPar,
    Kind::Inh,
    Kind::Sim,
    Kind::Impl,
    Kind::Equiv,
    Kind::ImplPred,
    Kind::ImplConc,
    Kind::ImplRetro,
    Kind::EquivPred,
    Kind::EquivConc,
];

pub const ATOM_KINDS: [Kind; 7] = [
    Kind::Word,
    Kind::Placeholder,
    Kind::IVar,
    Kind::DVar,
    Kind::QVar,
    Kind::Interval,
    Kind::Operator,
];
pub const NAMED_ATOM_KINDS: [Kind; 5] = [Kind::Word, Kind::IVar, Kind::DVar, Kind::QVar, Kind::Operator];
pub const SET_KINDS: [Kind; 7] = [
    Kind::SetExt,
    Kind::SetInt,
    Kind::IntExt,
    Kind::IntInt,
    Kind::Conj,
    Kind::Disj,
    Kind::ConjPar,
];
pub const VEC_KINDS: [Kind; 2] = [Kind::Product, Kind::ConjSeq];
pub const IMG_KINDS: [Kind; 2] = [Kind::ImgExt, Kind::ImgInt];
pub const BINORD_COMPOUND_KINDS: [Kind; 2] = [Kind::DiffExt, Kind::DiffInt];
pub const BINORD_STATEMENT_KINDS: [Kind; 6] = [
    Kind::Inh,
    Kind::Impl,
    Kind::ImplPred,
    Kind::ImplConc,
    Kind::ImplRetro,
    Kind::EquivPred,
];
pub const BINSYM_KINDS: [Kind; 3] = [Kind::Sim, Kind::Equiv, Kind::EquivConc];

#[derive(Clone, Copy, Debug, PartialEq, Eq)]
pub enum Shape {
    AtomNamed,
    AtomPlaceholder,
    AtomInterval,
    Unary,
    BinOrd,
    BinSym,
    VecN,
    SetN,
    Image,
}

#[derive(Clone, Copy, Debug, PartialEq, Eq)]
pub enum Cat {
    Atom,
    Compound,
    Statement,
}

impl Kind {
    pub fn shape(self) -> Shape {
        use Kind::*;
        match self {
            Word | IVar | DVar | QVar | Operator => Shape::AtomNamed,
            Placeholder => Shape::AtomPlaceholder,
            Interval => Shape::AtomInterval,
            Neg => Shape::Unary,
            DiffExt | DiffInt | Inh | Impl | ImplPred | ImplConc | ImplRetro | EquivPred => Shape::BinOrd,
            Sim | Equiv | EquivConc => Shape::BinSym,
            Product | ConjSeq => Shape::VecN,
            SetExt | SetInt | IntExt | IntInt | Conj | Disj | ConjPar => Shape::SetN,
            ImgExt | ImgInt => Shape::Image,
        }
    }
    pub fn cat(self) -> Cat {
        use Kind::*;
        match self {
            Word | Placeholder | IVar | DVar | QVar | Interval | Operator => Cat::Atom,
            Inh | Sim | Impl | Equiv | ImplPred | ImplConc | ImplRetro | EquivPred | EquivConc => Cat::Statement,
            _ => Cat::Compound,
        }
    }
    pub fn tag(self) -> &'static str {
        use Kind::*;
        match self {
            Word => "W",
            Placeholder => "_",
            IVar => "$",
            DVar => "#",
            QVar => "?",
            Interval => "+",
            Operator => "^",
            SetExt => "SetExt",
            SetInt => "SetInt",
            IntExt => "IntExt",
            IntInt => "IntInt",
            DiffExt => "DiffExt",
            DiffInt => "DiffInt",
            Product => "Prod",
            ImgExt => "ImgExt",
            ImgInt => "ImgInt",
            Conj => "Conj",
            Disj => "Disj",
            Neg => "Neg",
            ConjSeq => "Seq",
            ConjPar => "Par",
            Inh => "Inh",
            Sim => "Sim",
            Impl => "Impl",
            Equiv => "Equiv",
            ImplPred => "ImplPred",
            ImplConc => "ImplConc",
            ImplRetro => "ImplRetro",
            EquivPred => "EquivPred",
            EquivConc => "EquivConc",
        }
    }
    pub fn of_term(t: &Term) -> Kind {
        match t {
            Term::Word(..) => Kind::Word,
            Term::Placeholder => Kind::Placeholder,
            Term::VariableIndependent(..) => Kind::IVar,
            Term::VariableDependent(..) => Kind::DVar,
            Term::VariableQuery(..) => Kind::QVar,
            Term::Interval(..) => Kind::Interval,
            Term::Operator(..) => Kind::Operator,
            Term::SetExtension(..) => Kind::SetExt,
            Term::SetIntension(..) => Kind::SetInt,
            Term::IntersectionExtension(..) => Kind::IntExt,
            Term::IntersectionIntension(..) => Kind::IntInt,
            Term::DifferenceExtension(..) => Kind::DiffExt,
            Term::DifferenceIntension(..) => Kind::DiffInt,
            Term::Product(..) => Kind::Product,
            Term::ImageExtension(..) => Kind::ImgExt,
            Term::ImageIntension(..) => Kind::ImgInt,
            Term::Conjunction(..) => Kind::Conj,
            Term::Disjunction(..) => Kind::Disj,
            Term::Negation(..) => Kind::Neg,
            Term::ConjunctionSequential(..) => Kind::ConjSeq,
            Term::ConjunctionParallel(..) => Kind::ConjPar,
            Term::Inheritance(..) => Kind::Inh,
            Term::Similarity(..) => Kind::Sim,
            Term::Implication(..) => Kind::Impl,
            Term::Equivalence(..) => Kind::Equiv,
            Term::ImplicationPredictive(..) => Kind::ImplPred,
            Term::ImplicationConcurrent(..) => Kind::ImplConc,
            Term::ImplicationRetrospective(..) => Kind::ImplRetro,
            Term::EquivalencePredictive(..) => Kind::EquivPred,
            Term::EquivalenceConcurrent(..) => Kind::EquivConc,
        }
    }
}

/// Term description. `kids` is the ordered list of insertions (duplicates included) for set-like
/// kinds, the operands as written for symmetric statements; `num` is the interval value or the
/// image placeholder index.
#[derive(Clone, Debug, PartialEq)]
pub struct TD {
    pub k: Kind,
    pub name: String,
    pub num: usize,
    pub kids: Vec<TD>,
}

impl TD {
    pub fn atom(k: Kind, name: &str) -> TD {
        TD { k, name: name.to_string(), num: 0, kids: vec![] }
    }
    pub fn word(name: &str) -> TD {
        TD::atom(Kind::Word, name)
    }
    pub fn placeholder() -> TD {
        TD::atom(Kind::Placeholder, "")
    }
    pub fn interval(n: usize) -> TD {
        TD { k: Kind::Interval, name: String::new(), num: n, kids: vec![] }
    }
    pub fn comp(k: Kind, kids: Vec<TD>) -> TD {
        TD { k, name: String::new(), num: 0, kids }
    }
    pub fn image(k: Kind, idx: usize, kids: Vec<TD>) -> TD {
        TD { k, name: String::new(), num: idx, kids }
    }
    pub fn bin(k: Kind, a: TD, b: TD) -> TD {
        TD::comp(k, vec![a, b])
    }

    pub fn depth(&self) -> usize {
        1 + self.kids.iter().map(|k| k.depth()).max().unwrap_or(0)
    }
    pub fn size(&self) -> usize {
        1 + self.kids.iter().map(|k| k.size()).sum::<usize>()
    }
    pub fn visit(&self, f: &mut impl FnMut(&TD)) {
        f(self);
        for k in &self.kids {
            k.visit(f);
        }
    }

    /// Build the real term through the public constructors, in description order.
    pub fn build(&self) -> Term {
        let kids = self.kids.iter().map(|k| k.build()).collect::<Vec<_>>();
        construct(self.k, &self.name, self.num, kids)
    }

    /// Canonical (semantic) form as text.
    pub fn canon(&self) -> String {
        let mut s = String::new();
        self.canon_into(&mut s);
        s
    }
    fn canon_into(&self, out: &mut String) {
        use std::fmt::Write;
        match self.k.shape() {
            Shape::AtomNamed => {
                let _ = write!(out, "{}{:?}", self.k.tag(), self.name);
            }
            Shape::AtomPlaceholder => out.push('_'),
            Shape::AtomInterval => {
                let _ = write!(out, "+{}", self.num);
            }
            Shape::Unary | Shape::BinOrd | Shape::VecN => {
                out.push_str(self.k.tag());
                out.push('(');
                for (i, k) in self.kids.iter().enumerate() {
                    if i > 0 {
                        out.push(',');
                    }
                    k.canon_into(out);
                }
                out.push(')');
            }
            Shape::Image => {
                let _ = write!(out, "{}@{}(", self.k.tag(), self.num);
                for (i, k) in self.kids.iter().enumerate() {
                    if i > 0 {
                        out.push(',');
                    }
                    k.canon_into(out);
                }
                out.push(')');
            }
            Shape::BinSym => {
                let mut cs: Vec<String> = self.kids.iter().map(|k| k.canon()).collect();
                cs.sort();
                out.push_str(self.k.tag());
                out.push('(');
                out.push_str(&cs.join(","));
                out.push(')');
            }
            Shape::SetN => {
                let mut cs: Vec<String> = self.kids.iter().map(|k| k.canon()).collect();
                cs.sort();
                cs.dedup();
                out.push_str(self.k.tag());
                out.push('{');
                out.push_str(&cs.join(","));
                out.push('}');
            }
        }
    }

    /// compact JSON for replays (re-readable by `TD::from_json`)
    pub fn to_json(&self) -> J {
        let mut j = J::obj().set("k", self.k.tag());
        match self.k.shape() {
            Shape::AtomNamed => j.put("name", &self.name),
            Shape::AtomInterval => j.put("num", self.num),
            Shape::Image => j.put("num", self.num),
            _ => {}
        }
        if !self.kids.is_empty() {
            j.put("kids", J::Arr(self.kids.iter().map(|k| k.to_json()).collect()));
        }
        j
    }
    pub fn from_json(j: &J) -> Option<TD> {
        let tag = j.get("k")?.as_str()?;
        let k = *ALL_KINDS.iter().find(|k| k.tag() == tag)?;
        let name = j.get("name").and_then(|n| n.as_str()).unwrap_or("").to_string();
        let num = j.get("num").and_then(|n| n.as_i128()).unwrap_or(0) as usize;
        let kids = match j.get("kids").and_then(|a| a.as_arr()) {
            Some(a) => a.iter().map(TD::from_json).collect::<Option<Vec<_>>>()?,
            None => vec![],
        };
        Some(TD { k, name, num, kids })
    }
}

/// Apply the public constructor of kind `k` to already-built components.
pub fn construct(k: Kind, name: &str, num: usize, kids: Vec<Term>) -> Term {
    use Kind::*;
    fn two(kids: Vec<Term>) -> (Term, Term) {
        let mut it = kids.into_iter();
        (it.next().unwrap(), it.next().unwrap())
    }
    match k {
        Word => Term::new_word(name),
        Placeholder => Term::new_placeholder(),
        IVar => Term::new_variable_independent(name),
        DVar => Term::new_variable_dependent(name),
        QVar => Term::new_variable_query(name),
        Interval => Term::new_interval(num),
        Operator => Term::new_operator(name),
        SetExt => Term::new_set_extension(kids),
        SetInt => Term::new_set_intension(kids),
        IntExt => Term::new_intersection_extension(kids),
        IntInt => Term::new_intersection_intension(kids),
        DiffExt => {
            let (a, b) = two(kids);
            Term::new_difference_extension(a, b)
        }
        DiffInt => {
            let (a, b) = two(kids);
            Term::new_difference_intension(a, b)
        }
        Product => Term::new_product(kids),
        ImgExt => Term::new_image_extension(num, kids),
        ImgInt => Term::new_image_intension(num, kids),
        Conj => Term::new_conjunction(kids),
        Disj => Term::new_disjunction(kids),
        Neg => Term::new_negation(kids.into_iter().next().unwrap()),
        ConjSeq => Term::new_conjunction_sequential(kids),
        ConjPar => Term::new_conjunction_parallel(kids),
        Inh => {
            let (a, b) = two(kids);
            Term::new_inheritance(a, b)
        }
        Sim => {
            let (a, b) = two(kids);
            Term::new_similarity(a, b)
        }
        Impl => {
            let (a, b) = two(kids);
            Term::new_implication(a, b)
        }
        Equiv => {
            let (a, b) = two(kids);
            Term::new_equivalence(a, b)
        }
        ImplPred => {
            let (a, b) = two(kids);
            Term::new_implication_predictive(a, b)
        }
        ImplConc => {
            let (a, b) = two(kids);
            Term::new_implication_concurrent(a, b)
        }
        ImplRetro => {
            let (a, b) = two(kids);
            Term::new_implication_retrospective(a, b)
        }
        EquivPred => {
            let (a, b) = two(kids);
            Term::new_equivalence_predictive(a, b)
        }
        EquivConc => {
            let (a, b) = two(kids);
            Term::new_equivalence_concurrent(a, b)
        }
    }
}

/// Canonical form of a *real* term, by pattern matching on the public enum.
pub fn canon_real(t: &Term) -> String {
    let mut s = String::new();
    canon_real_into(t, &mut s);
    s
}

fn canon_real_into(t: &Term, out: &mut String) {
    use std::fmt::Write;
    let k = Kind::of_term(t);
    let join_ordered = |out: &mut String, ts: &mut dyn Iterator<Item = &Term>| {
        for (i, x) in ts.enumerate() {
            if i > 0 {
                out.push(',');
            }
            canon_real_into(x, out);
        }
    };
    match t {
        Term::Word(n)
        | Term::VariableIndependent(n)
        | Term::VariableDependent(n)
        | Term::VariableQuery(n)
        | Term::Operator(n) => {
            let _ = write!(out, "{}{:?}", k.tag(), n);
        }
        Term::Placeholder => out.push('_'),
        Term::Interval(i) => {
            let _ = write!(out, "+{}", i);
        }
        Term::Negation(a) => {
            out.push_str(k.tag());
            out.push('(');
            canon_real_into(a, out);
            out.push(')');
        }
        Term::DifferenceExtension(a, b)
        | Term::DifferenceIntension(a, b)
        | Term::Inheritance(a, b)
        | Term::Implication(a, b)
        | Term::ImplicationPredictive(a, b)
        | Term::ImplicationConcurrent(a, b)
        | Term::ImplicationRetrospective(a, b)
        | Term::EquivalencePredictive(a, b) => {
            out.push_str(k.tag());
            out.push('(');
            canon_real_into(a, out);
            out.push(',');
            canon_real_into(b, out);
            out.push(')');
        }
        Term::Similarity(a, b) | Term::Equivalence(a, b) | Term::EquivalenceConcurrent(a, b) => {
            let mut cs = vec![canon_real(a), canon_real(b)];
            cs.sort();
            out.push_str(k.tag());
            out.push('(');
            out.push_str(&cs.join(","));
            out.push(')');
        }
        Term::Product(v) | Term::ConjunctionSequential(v) => {
            out.push_str(k.tag());
            out.push('(');
            join_ordered(out, &mut v.iter());
            out.push(')');
        }
        Term::ImageExtension(i, v) | Term::ImageIntension(i, v) => {
            let _ = write!(out, "{}@{}(", k.tag(), i);
            join_ordered(out, &mut v.iter());
            out.push(')');
        }
        Term::SetExtension(s)
        | Term::SetIntension(s)
        | Term::IntersectionExtension(s)
        | Term::IntersectionIntension(s)
        | Term::Conjunction(s)
        | Term::Disjunction(s)
        | Term::ConjunctionParallel(s) => {
            let mut cs: Vec<String> = s.iter().map(canon_real).collect();
            cs.sort();
            // NOTE: no dedup here on purpose: a real set holding two semantically equal members is
            // a defect of the crate's Eq/Hash that must stay visible
            out.push_str(k.tag());
            out.push('{');
            out.push_str(&cs.join(","));
            out.push('}');
        }
    }
}

// ---------------------------------------------------------------------------------------------
// sentences / tasks

#[derive(Clone, Copy, Debug, PartialEq, Eq)]
pub enum PunctD {
    Judgement,
    Goal,
    Question,
    Quest,
}
pub const ALL_PUNCT: [PunctD; 4] = [PunctD::Judgement, PunctD::Goal, PunctD::Question, PunctD::Quest];

impl PunctD {
    pub fn has_truth(self) -> bool {
        matches!(self, PunctD::Judgement | PunctD::Goal)
    }
    pub fn build(self) -> Punctuation {
        match self {
            PunctD::Judgement => Punctuation::Judgement,
            PunctD::Goal => Punctuation::Goal,
            PunctD::Question => Punctuation::Question,
            PunctD::Quest => Punctuation::Quest,
        }
    }
    pub fn tag(self) -> &'static str {
        match self {
            PunctD::Judgement => ".",
            PunctD::Goal => "!",
            PunctD::Question => "?",
            PunctD::Quest => "@",
        }
    }
    pub fn of(p: &Punctuation) -> PunctD {
        match p {
            Punctuation::Judgement => PunctD::Judgement,
            Punctuation::Goal => PunctD::Goal,
            Punctuation::Question => PunctD::Question,
            Punctuation::Quest => PunctD::Quest,
        }
    }
}

#[derive(Clone, Copy, Debug, PartialEq, Eq)]
pub enum StampD {
    Eternal,
    Past,
    Present,
    Future,
    Fixed(isize),
}
impl StampD {
    pub fn build(self) -> Stamp {
        match self {
            StampD::Eternal => Stamp::Eternal,
            StampD::Past => Stamp::Past,
            StampD::Present => Stamp::Present,
            StampD::Future => Stamp::Future,
            StampD::Fixed(t) => Stamp::Fixed(t),
        }
    }
    pub fn canon(self) -> String {
        match self {
            StampD::Eternal => "eternal".into(),
            StampD::Past => "past".into(),
            StampD::Present => "present".into(),
            StampD::Future => "future".into(),
            StampD::Fixed(t) => format!("fixed{}", t),
        }
    }
    pub fn of(s: &Stamp) -> StampD {
        match s {
            Stamp::Eternal => StampD::Eternal,
            Stamp::Past => StampD::Past,
            Stamp::Present => StampD::Present,
            Stamp::Future => StampD::Future,
            Stamp::Fixed(t) => StampD::Fixed(*t),
        }
    }
    pub fn kind_name(self) -> &'static str {
        match self {
            StampD::Eternal => "eternal",
            StampD::Past => "past",
            StampD::Present => "present",
            StampD::Future => "future",
            StampD::Fixed(_) => "fixed",
        }
    }
}

#[derive(Clone, Debug, PartialEq)]
pub struct SD {
    pub term: TD,
    pub punct: PunctD,
    pub stamp: StampD,
    /// 0..=2 numbers; ignored (must be empty) for question / quest
    pub truth: Vec<f64>,
}

#[derive(Clone, Debug, PartialEq)]
pub struct KD {
    pub sent: SD,
    /// 0..=3 numbers
    pub budget: Vec<f64>,
}

#[derive(Clone, Debug, PartialEq)]
pub enum ND {
    Term(TD),
    Sent(SD),
    Task(KD),
}

pub fn build_truth(v: &[f64]) -> Truth {
    match v.len() {
        0 => Truth::Empty,
        1 => Truth::Single(v[0]),
        _ => Truth::Double(v[0], v[1]),
    }
}
pub fn build_budget(v: &[f64]) -> Budget {
    match v.len() {
        0 => Budget::Empty,
        1 => Budget::Single(v[0]),
        2 => Budget::Double(v[0], v[1]),
        _ => Budget::Triple(v[0], v[1], v[2]),
    }
}

pub fn bits(v: &[f64]) -> String {
    let parts: Vec<String> = v.iter().map(|f| format!("{:016x}", f.to_bits())).collect();
    format!("[{}]", parts.join(","))
}

pub fn truth_vec(t: &Truth) -> Vec<f64> {
    match t {
        Truth::Empty => vec![],
        Truth::Single(f) => vec![*f],
        Truth::Double(f, c) => vec![*f, *c],
    }
}
pub fn budget_vec(b: &Budget) -> Vec<f64> {
    match b {
        Budget::Empty => vec![],
        Budget::Single(p) => vec![*p],
        Budget::Double(p, d) => vec![*p, *d],
        Budget::Triple(p, d, q) => vec![*p, *d, *q],
    }
}

impl SD {
    pub fn build(&self) -> Sentence {
        let term = self.term.build();
        let truth = build_truth(&self.truth);
        let stamp = self.stamp.build();
        match self.punct {
            PunctD::Judgement => Sentence::new_judgement(term, truth, stamp),
            PunctD::Goal => Sentence::new_goal(term, truth, stamp),
            PunctD::Question => Sentence::new_question(term, stamp),
            PunctD::Quest => Sentence::new_quest(term, stamp),
        }
    }
    pub fn canon(&self) -> String {
        let truth = if self.punct.has_truth() { bits(&self.truth) } else { "[]".into() };
        format!("S<{}|{}|{}|{}>", self.term.canon(), self.punct.tag(), self.stamp.canon(), truth)
    }
    pub fn to_json(&self) -> J {
        J::obj()
            .set("term", self.term.to_json())
            .set("punct", self.punct.tag())
            .set("stamp", self.stamp.canon())
            .set("truth", J::Arr(self.truth.iter().map(|f| J::Str(format!("{:?}", f))).collect()))
    }
}
impl KD {
    pub fn build(&self) -> Task {
        Task::new(self.sent.build(), build_budget(&self.budget))
    }
    pub fn canon(&self) -> String {
        format!("K<{}|{}>", self.sent.canon(), bits(&self.budget))
    }
    pub fn to_json(&self) -> J {
        J::obj()
            .set("sentence", self.sent.to_json())
            .set("budget", J::Arr(self.budget.iter().map(|f| J::Str(format!("{:?}", f))).collect()))
    }
}
impl ND {
    pub fn build(&self) -> Narsese {
        match self {
            ND::Term(t) => Narsese::Term(t.build()),
            ND::Sent(s) => Narsese::Sentence(s.build()),
            ND::Task(k) => Narsese::Task(k.build()),
        }
    }
    pub fn canon(&self) -> String {
        match self {
            ND::Term(t) => format!("T<{}>", t.canon()),
            ND::Sent(s) => s.canon(),
            ND::Task(k) => k.canon(),
        }
    }
    pub fn term(&self) -> &TD {
        match self {
            ND::Term(t) => t,
            ND::Sent(s) => &s.term,
            ND::Task(k) => &k.sent.term,
        }
    }
    pub fn term_mut(&mut self) -> &mut TD {
        match self {
            ND::Term(t) => t,
            ND::Sent(s) => &mut s.term,
            ND::Task(k) => &mut k.sent.term,
        }
    }
    pub fn kind_name(&self) -> &'static str {
        match self {
            ND::Term(_) => "term",
            ND::Sent(_) => "sentence",
            ND::Task(_) => "task",
        }
    }
    pub fn to_json(&self) -> J {
        match self {
            ND::Term(t) => J::obj().set("kind", "term").set("term", t.to_json()),
            ND::Sent(s) => J::obj().set("kind", "sentence").set("sentence", s.to_json()),
            ND::Task(k) => J::obj().set("kind", "task").set("task", k.to_json()),
        }
    }
}

pub fn canon_real_sentence(s: &Sentence) -> String {
    let p = PunctD::of(s.get_punctuation());
    let truth = match s.get_truth() {
        Some(t) => bits(&truth_vec(t)),
        None => "[]".into(),
    };
    // read the variant directly as well: the accessor and the variant must agree
    let variant_p = match s {
        Sentence::Judgement(..) => PunctD::Judgement,
        Sentence::Goal(..) => PunctD::Goal,
        Sentence::Question(..) => PunctD::Question,
        Sentence::Quest(..) => PunctD::Quest,
    };
    let ptag = if variant_p == p { p.tag().to_string() } else { format!("{}≠{}", variant_p.tag(), p.tag()) };
    format!(
        "S<{}|{}|{}|{}>",
        canon_real(s.get_term()),
        ptag,
        StampD::of(s.get_stamp()).canon(),
        truth
    )
}
pub fn canon_real_task(k: &Task) -> String {
    format!("K<{}|{}>", canon_real_sentence(k.get_sentence()), bits(&budget_vec(k.get_budget())))
}
pub fn canon_real_narsese(n: &Narsese) -> String {
    match n {
        Narsese::Term(t) => format!("T<{}>", canon_real(t)),
        Narsese::Sentence(s) => canon_real_sentence(s),
        Narsese::Task(k) => canon_real_task(k),
    }
}

// ---------------------------------------------------------------------------------------------
// generators

/// Generation parameters
#[derive(Clone)]
pub struct Gen<'a> {
    pub names: &'a [String],
    pub max_depth: usize,
    pub max_arity: usize,
    /// allow a bare placeholder as a component of non-image compounds / statements / top level
    pub placeholders: bool,
    /// bias toward unordered-in-unordered nesting and symmetric statements (C06/C07/C16)
    pub set_bias: bool,
}

pub const SPECIAL_FLOATS: [f64; 12] = [
    0.0,
    1.0,
    0.5,
    5e-324,
    f64::MIN_POSITIVE,
    0.9999999999999999,
    0.30000000000000004,
    1e-7,
    0.1,
    0.9,
    0.75,
    0.01,
];

pub const SPECIAL_TIMES: [isize; 8] = [0, 1, -1, isize::MIN, isize::MAX, 42, -1000000007, 7];

impl<'a> Gen<'a> {
    pub fn name(&self, rng: &mut Rng) -> String {
        rng.pick(self.names).clone()
    }
    /// top-level entry: mostly `term(depth)`, but 1 case in 50 uses an *extreme profile* — deep
    /// (up to 18), wide (arity up to 12), long names (2..8 pool names concatenated, 10..60 chars),
    /// big intervals — that small-scope generation would never reach
    pub fn term_x(&self, rng: &mut Rng, depth: usize) -> TD {
        if !rng.chance(1, 50) {
            return self.term(rng, depth, false);
        }
        let mut t = match rng.below(4) {
            3 => {
                // many small composites side by side (40..120 statements / compounds at depth 2)
                let k = *rng.pick(&[Kind::Conj, Kind::Product, Kind::SetExt, Kind::ConjSeq, Kind::IntExt, Kind::Disj]);
                let n = rng.range(40, 100);
                let g = Gen { max_arity: 2, ..self.clone() };
                let kids: Vec<TD> = (0..n)
                    .map(|i| {
                        let inner = ALL_KINDS[7 + rng.below(23)];
                        match inner.shape() {
                            Shape::Unary => TD::comp(inner, vec![g.atom(rng, false)]),
                            Shape::BinOrd | Shape::BinSym => TD::bin(inner, g.atom(rng, false), TD::word(&format!("n{}", i))),
                            Shape::Image => TD::image(inner, rng.below(2), vec![TD::word(&format!("n{}", i))]),
                            _ => TD::comp(inner, vec![TD::word(&format!("n{}", i))]),
                        }
                    })
                    .collect();
                TD::comp(k, kids)
            }
            0 => {
                // deep and narrow
                let g = Gen { max_arity: 2, ..self.clone() };
                let d = if rng.chance(1, 4) { rng.range(30, 90) } else { rng.range(9, 18) };
                g.spine(rng, d)
            }
            1 => {
                // wide
                let g = Gen { max_arity: 12, ..self.clone() };
                let mut t = g.term(rng, 3, false);
                let mut guard = 0;
                while t.kids.len() < 7 && guard < 20 {
                    t = g.term(rng, 3, false);
                    guard += 1;
                }
                t
            }
            _ => self.term(rng, depth.max(3), false),
        };
        // keep the formatted text of an extreme value within a few thousand characters: the lexical
        // parser is quadratic in the input length
        if t.size() > 400 {
            t = self.term(rng, depth.max(3), false);
        }
        self.lengthen_names(&mut t, rng);
        t
    }

    /// a deep chain: every level is a random non-atom constructor with one deep child
    fn spine(&self, rng: &mut Rng, depth: usize) -> TD {
        if depth <= 1 {
            return self.atom(rng, false);
        }
        let k = ALL_KINDS[7 + rng.below(23)];
        let deep = self.spine(rng, depth - 1);
        match k.shape() {
            Shape::Unary => TD::comp(k, vec![deep]),
            Shape::BinOrd | Shape::BinSym => {
                let other = self.atom(rng, false);
                if rng.chance(1, 2) {
                    TD::comp(k, vec![deep, other])
                } else {
                    TD::comp(k, vec![other, deep])
                }
            }
            Shape::Image => {
                let other = self.atom(rng, false);
                let kids = if rng.chance(1, 2) { vec![deep, other] } else { vec![other, deep] };
                let idx = rng.below(3);
                TD::image(k, idx, kids)
            }
            _ => {
                let mut kids = vec![deep];
                if rng.chance(1, 2) {
                    kids.push(self.atom(rng, true));
                }
                TD::comp(k, kids)
            }
        }
    }

    fn lengthen_names(&self, t: &mut TD, rng: &mut Rng) {
        match t.k.shape() {
            Shape::AtomNamed => {
                if rng.chance(1, 2) {
                    let n = rng.range(2, 8);
                    let mut name = String::new();
                    for _ in 0..n {
                        name.push_str(&rng.pick(self.names)[..]);
                        // random letters from wide Unicode ranges (never a keyword character of any format)
                        if rng.chance(1, 2) {
                            for _ in 0..rng.range(1, 4) {
                                name.push(random_letter(rng));
                            }
                        }
                    }
                    t.name = name;
                }
            }
            Shape::AtomInterval => {
                if rng.chance(1, 2) {
                    t.num = match rng.below(6) {
                        0 => (1usize << 31) - 1,
                        1 => 1usize << 32,
                        2 => (1usize << 53) + 1,
                        3 => usize::MAX - 1,
                        4 => 10usize.pow(rng.range(1, 19) as u32),
                        _ => rng.next_u64() as usize,
                    };
                }
            }
            _ => {}
        }
        for k in t.kids.iter_mut() {
            self.lengthen_names(k, rng);
        }
    }

    pub fn atom(&self, rng: &mut Rng, allow_placeholder: bool) -> TD {
        let r = rng.below(20);
        match r {
            0..=9 => TD::atom(Kind::Word, &self.name(rng)),
            10..=11 => TD::atom(Kind::IVar, &self.name(rng)),
            12..=13 => TD::atom(Kind::DVar, &self.name(rng)),
            14..=15 => TD::atom(Kind::QVar, &self.name(rng)),
            16..=17 => TD::atom(Kind::Operator, &self.name(rng)),
            18 => TD::interval(match rng.below(6) {
                0 => 0,
                1 => usize::MAX,
                2 => 7,
                _ => rng.below(1000),
            }),
            _ => {
                if allow_placeholder && self.placeholders {
                    TD::placeholder()
                } else {
                    TD::atom(Kind::Word, &self.name(rng))
                }
            }
        }
    }
    /// random term of depth <= `depth`
    pub fn term(&self, rng: &mut Rng, depth: usize, in_image: bool) -> TD {
        if depth <= 1 || rng.chance(1, 4) {
            return self.atom(rng, !in_image);
        }
        let pick_kind = |rng: &mut Rng| -> Kind {
            if self.set_bias && rng.chance(2, 3) {
                if rng.chance(3, 4) {
                    *rng.pick(&SET_KINDS)
                } else {
                    *rng.pick(&BINSYM_KINDS)
                }
            } else {
                // any non-atom kind, uniformly
                ALL_KINDS[7 + rng.below(23)]
            }
        };
        let k = pick_kind(rng);
        let d = depth - 1;
        match k.shape() {
            Shape::Unary => TD::comp(k, vec![self.term(rng, d, false)]),
            Shape::BinOrd | Shape::BinSym => {
                let a = self.term(rng, d, false);
                let b = if rng.chance(1, 8) { a.clone() } else { self.term(rng, d, false) };
                TD::comp(k, vec![a, b])
            }
            Shape::VecN => {
                let n = rng.range(1, self.max_arity);
                TD::comp(k, (0..n).map(|_| self.term(rng, d, false)).collect())
            }
            Shape::SetN => {
                let n = rng.range(1, self.max_arity);
                let mut kids: Vec<TD> = (0..n).map(|_| self.term(rng, d, false)).collect();
                // sometimes insert a duplicate (possibly a semantically equal permutation)
                if rng.chance(1, 5) && !kids.is_empty() {
                    let dup = rng.pick(&kids).clone();
                    let pos = rng.below(kids.len() + 1);
                    kids.insert(pos, dup);
                }
                TD::comp(k, kids)
            }
            Shape::Image => {
                // images with 0 components (placeholder only) cannot be written (empty compound
                // after removing the placeholder is still printed as `(/, _)`), keep >= 1
                let n = rng.range(1, self.max_arity);
                let mut kids: Vec<TD> = (0..n).map(|_| self.term(rng, d, true)).collect();
                let idx = match rng.below(4) {
                    0 => 0,
                    1 => n,
                    _ => rng.below(n + 1),
                };
                // a bare placeholder may be a component *after* the image's own placeholder (it is
                // then written as a second `_` and read back as a component, unambiguously)
                if self.placeholders && idx < n && rng.chance(1, 8) {
                    let pos = rng.range(idx, n - 1);
                    kids[pos] = TD::placeholder();
                }
                TD::image(k, idx, kids)
            }
            _ => unreachable!(),
        }
    }
    pub fn float(&self, rng: &mut Rng) -> f64 {
        match rng.below(8) {
            0..=2 => *rng.pick(&SPECIAL_FLOATS),
            3 | 4 => rng.unit_f64(),
            5 => {
                // k / 10^d : short decimal texts of every length
                let d = rng.range(1, 17) as i32;
                let k = rng.next_u64() % 10u64.pow(d as u32);
                (k as f64 / 10f64.powi(d)).min(1.0)
            }
            6 => {
                // all scales towards 0 and towards 1
                let e = rng.range(1, 300) as i32;
                let x = rng.unit_f64() * 10f64.powi(-e.min(30)) * if e > 30 { 10f64.powi(-(e - 30)) } else { 1.0 };
                if rng.chance(1, 2) { x } else { (1.0 - x.min(0.5)).min(1.0) }
            }
            _ => {
                // neighbours of special values
                let b = rng.pick(&SPECIAL_FLOATS).to_bits() as i64 + (rng.below(5) as i64 - 2);
                let x = f64::from_bits(b.max(0) as u64);
                if x.is_finite() && (0.0..=1.0).contains(&x) { x } else { 0.5 }
            }
        }
    }
    pub fn stamp(&self, rng: &mut Rng) -> StampD {
        match rng.below(9) {
            0 | 1 => StampD::Eternal,
            2 => StampD::Past,
            3 => StampD::Present,
            4 => StampD::Future,
            5 => StampD::Fixed(*rng.pick(&SPECIAL_TIMES)),
            6 => {
                let p = 10isize.pow(rng.range(0, 18) as u32);
                StampD::Fixed(match rng.below(4) {
                    0 => p,
                    1 => -p,
                    2 => isize::MAX - rng.below(3) as isize,
                    _ => isize::MIN + rng.below(3) as isize,
                })
            }
            _ => StampD::Fixed(rng.next_u64() as isize),
        }
    }
    pub fn sentence(&self, rng: &mut Rng, depth: usize) -> SD {
        let punct = *rng.pick(&ALL_PUNCT);
        let truth = if punct.has_truth() {
            (0..rng.below(3)).map(|_| self.float(rng)).collect()
        } else {
            vec![]
        };
        SD { term: self.term_x(rng, depth), punct, stamp: self.stamp(rng), truth }
    }
    pub fn task(&self, rng: &mut Rng, depth: usize) -> KD {
        let budget = (0..rng.below(4)).map(|_| self.float(rng)).collect();
        KD { sent: self.sentence(rng, depth), budget }
    }
    pub fn narsese(&self, rng: &mut Rng, depth: usize) -> ND {
        match rng.below(3) {
            0 => ND::Term(self.term_x(rng, depth)),
            1 => ND::Sent(self.sentence(rng, depth)),
            _ => ND::Task(self.task(rng, depth)),
        }
    }
}

/// a random alphanumeric character from wide Unicode ranges that is not a character of any Han
/// keyword (so the name stays in the safe pool of every format)
pub fn random_letter(rng: &mut Rng) -> char {
    const HAN_KEYWORD_CHARS: &str = "某任一其所问间隔操作外交内差积像与或非接连同时是似得为有具将现曾过去在来发生真值预算";
    const RANGES: [(u32, u32); 14] = [
        (0x4E00, 0x9FFF),   // CJK unified
        (0x3400, 0x4DBF),   // CJK ext A
        (0xAC00, 0xD7A3),   // Hangul syllables
        (0x0400, 0x04FF),   // Cyrillic
        (0x0370, 0x03FF),   // Greek
        (0x3040, 0x30FF),   // kana
        (0x1F300, 0x1FAFF), // emoji & pictographs (> U+1F2FF are identifier chars of the formats)
        (0x20000, 0x2A6DF), // CJK ext B
        (0x00C0, 0x024F),   // Latin supplements
        (0xFF10, 0xFF19),   // fullwidth digits (Nd)
        (0x0660, 0x0669),   // Arabic-Indic digits (Nd)
        (0x2460, 0x2473),   // circled numbers (No)
        (0x2160, 0x2188),   // Roman numerals (Nl)
        (0x00B2, 0x00B3),   // superscripts (No)
    ];
    loop {
        let (lo, hi) = RANGES[rng.below(RANGES.len())];
        let cp = lo + (rng.next_u64() % (hi - lo + 1) as u64) as u32;
        if let Some(c) = char::from_u32(cp) {
            if (c.is_alphanumeric() || c > '\u{1f2ff}') && !HAN_KEYWORD_CHARS.contains(c) {
                return c;
            }
        }
    }
}

/// Bounded-exhaustive universe: every constructor applied to components drawn from `base`
/// (arities 1..=max_arity for variable-arity kinds; every image index 0..=n).
pub fn universe_over(base: &[TD], max_arity: usize, with_placeholder_kid: bool) -> Vec<TD> {
    let mut out = vec![];
    // all component tuples of length 1..=max_arity
    let mut tuples: Vec<Vec<TD>> = vec![];
    fn rec(base: &[TD], n: usize, cur: &mut Vec<TD>, acc: &mut Vec<Vec<TD>>) {
        if cur.len() == n {
            acc.push(cur.clone());
            return;
        }
        for b in base {
            cur.push(b.clone());
            rec(base, n, cur, acc);
            cur.pop();
        }
    }
    for n in 1..=max_arity {
        rec(base, n, &mut vec![], &mut tuples);
    }
    for k in ALL_KINDS {
        match k.shape() {
            Shape::AtomNamed | Shape::AtomPlaceholder | Shape::AtomInterval => {}
            Shape::Unary => {
                for b in base {
                    out.push(TD::comp(k, vec![b.clone()]));
                }
            }
            Shape::BinOrd | Shape::BinSym => {
                for t in tuples.iter().filter(|t| t.len() == 2) {
                    out.push(TD::comp(k, t.clone()));
                }
            }
            Shape::VecN | Shape::SetN => {
                for t in &tuples {
                    if !with_placeholder_kid && t.iter().any(|x| x.k == Kind::Placeholder) {
                        continue;
                    }
                    out.push(TD::comp(k, t.clone()));
                }
            }
            Shape::Image => {
                for t in &tuples {
                    if t.iter().any(|x| x.k == Kind::Placeholder) {
                        continue;
                    }
                    for idx in 0..=t.len() {
                        out.push(TD::image(k, idx, t.clone()));
                    }
                }
            }
        }
    }
    out
}

/// The atoms used as leaves of the small universe
pub fn base_atoms(names: &[&str]) -> Vec<TD> {
    let mut v = vec![];
    for (i, n) in names.iter().enumerate() {
        v.push(TD::word(n));
        // one of each other atom kind, spread over the names
        match i % 5 {
            0 => v.push(TD::atom(Kind::IVar, n)),
            1 => v.push(TD::atom(Kind::DVar, n)),
            2 => v.push(TD::atom(Kind::QVar, n)),
            3 => v.push(TD::atom(Kind::Operator, n)),
            _ => v.push(TD::interval(i)),
        }
    }
    v
}

/// structural well-formedness of a description (what the generators guarantee and the shrinker must
/// keep): arities respected, and no bare placeholder among an image's components *before* its own
/// placeholder index (that spelling would be read back with another index)
pub fn td_wellformed(t: &TD) -> bool {
    let ok_here = match t.k.shape() {
        Shape::Unary => t.kids.len() == 1,
        Shape::BinOrd | Shape::BinSym => t.kids.len() == 2,
        Shape::VecN | Shape::SetN => !t.kids.is_empty(),
        Shape::Image => !t.kids.is_empty() && t.num <= t.kids.len() && !t.kids.iter().take(t.num).any(|k| k.k == Kind::Placeholder),
        _ => t.kids.is_empty(),
    };
    ok_here && t.kids.iter().all(td_wellformed)
}

/// does the term contain an unordered compound with >= 2 distinct members nested inside another
/// unordered compound or symmetric statement? (non-triviality rule of C06/C07)
pub fn has_nested_unordered(t: &TD) -> bool {
    fn is_rich_unordered(t: &TD) -> bool {
        match t.k.shape() {
            Shape::SetN => {
                let mut cs: Vec<String> = t.kids.iter().map(|k| k.canon()).collect();
                cs.sort();
                cs.dedup();
                cs.len() >= 2
            }
            Shape::BinSym => t.kids[0].canon() != t.kids[1].canon(),
            _ => false,
        }
    }
    fn contains_rich(t: &TD) -> bool {
        is_rich_unordered(t) || t.kids.iter().any(contains_rich)
    }
    fn rec(t: &TD) -> bool {
        let here = matches!(t.k.shape(), Shape::SetN | Shape::BinSym) && t.kids.iter().any(contains_rich);
        here || t.kids.iter().any(rec)
    }
    rec(t)
}
