//! Minimal JSON value + serializer (writer only) so the harness needs no external crates.
use std::collections::BTreeMap;
use std::fmt::Write;

#[derive(Clone, Debug)]
pub enum J {
    Null,
    Bool(bool),
    Int(i128),
    Num(f64),
    Str(String),
    Arr(Vec<J>),
    Obj(BTreeMap<String, J>),
}

impl J {
    pub fn obj() -> J {
        J::Obj(BTreeMap::new())
    }
    pub fn set(mut self, k: &str, v: impl Into<J>) -> J {
        if let J::Obj(m) = &mut self {
            m.insert(k.to_string(), v.into());
        }
        self
    }
    pub fn put(&mut self, k: &str, v: impl Into<J>) {
        if let J::Obj(m) = self {
            m.insert(k.to_string(), v.into());
        }
    }
    pub fn to_string(&self) -> String {
        let mut s = String::new();
        self.write(&mut s);
        s
    }
    fn write(&self, out: &mut String) {
        match self {
            J::Null => out.push_str("null"),
            J::Bool(b) => out.push_str(if *b { "true" } else { "false" }),
            J::Int(i) => {
                let _ = write!(out, "{}", i);
            }
            J::Num(f) => {
                if f.is_finite() {
                    let _ = write!(out, "{:?}", f);
                } else {
                    let _ = write!(out, "\"{:?}\"", f);
                }
            }
            J::Str(s) => write_str(out, s),
            J::Arr(a) => {
                out.push('[');
                for (i, v) in a.iter().enumerate() {
                    if i > 0 {
                        out.push(',');
                    }
                    v.write(out);
                }
                out.push(']');
            }
            J::Obj(m) => {
                out.push('{');
                for (i, (k, v)) in m.iter().enumerate() {
                    if i > 0 {
                        out.push(',');
                    }
                    write_str(out, k);
                    out.push(':');
                    v.write(out);
                }
                out.push('}');
            }
        }
    }
}

fn write_str(out: &mut String, s: &str) {
    out.push('"');
    for c in s.chars() {
        match c {
            '"' => out.push_str("\\\""),
            '\\' => out.push_str("\\\\"),
            '\n' => out.push_str("\\n"),
            '\r' => out.push_str("\\r"),
            '\t' => out.push_str("\\t"),
            c if (c as u32) < 0x20 => {
                let _ = write!(out, "\\u{:04x}", c as u32);
            }
            c => out.push(c),
        }
    }
    out.push('"');
}

impl From<&str> for J {
    fn from(s: &str) -> J {
        J::Str(s.to_string())
    }
}
impl From<String> for J {
    fn from(s: String) -> J {
        J::Str(s)
    }
}
impl From<&String> for J {
    fn from(s: &String) -> J {
        J::Str(s.clone())
    }
}
impl From<bool> for J {
    fn from(b: bool) -> J {
        J::Bool(b)
    }
}
impl From<usize> for J {
    fn from(i: usize) -> J {
        J::Int(i as i128)
    }
}
impl From<u64> for J {
    fn from(i: u64) -> J {
        J::Int(i as i128)
    }
}
impl From<i64> for J {
    fn from(i: i64) -> J {
        J::Int(i as i128)
    }
}
impl From<isize> for J {
    fn from(i: isize) -> J {
        J::Int(i as i128)
    }
}
impl From<u32> for J {
    fn from(i: u32) -> J {
        J::Int(i as i128)
    }
}
impl From<f64> for J {
    fn from(f: f64) -> J {
        J::Num(f)
    }
}
impl<T: Into<J>> From<Vec<T>> for J {
    fn from(v: Vec<T>) -> J {
        J::Arr(v.into_iter().map(Into::into).collect())
    }
}
impl<T: Into<J> + Clone> From<&[T]> for J {
    fn from(v: &[T]) -> J {
        J::Arr(v.iter().cloned().map(Into::into).collect())
    }
}

// ---- a tiny JSON *reader* for replay files (objects of strings / numbers / arrays of strings) ----

pub fn parse(s: &str) -> Result<J, String> {
    let cs: Vec<char> = s.chars().collect();
    let mut i = 0;
    let v = parse_value(&cs, &mut i)?;
    skip_ws(&cs, &mut i);
    if i != cs.len() {
        return Err(format!("trailing characters at {}", i));
    }
    Ok(v)
}
fn skip_ws(cs: &[char], i: &mut usize) {
    while *i < cs.len() && cs[*i].is_whitespace() {
        *i += 1;
    }
}
fn parse_value(cs: &[char], i: &mut usize) -> Result<J, String> {
    skip_ws(cs, i);
    if *i >= cs.len() {
        return Err("unexpected end".into());
    }
    match cs[*i] {
        '{' => {
            *i += 1;
            let mut m = BTreeMap::new();
            loop {
                skip_ws(cs, i);
                if *i < cs.len() && cs[*i] == '}' {
                    *i += 1;
                    break;
                }
                let k = match parse_value(cs, i)? {
                    J::Str(s) => s,
                    _ => return Err("object key must be string".into()),
                };
                skip_ws(cs, i);
                if *i >= cs.len() || cs[*i] != ':' {
                    return Err("expected ':'".into());
                }
                *i += 1;
                let v = parse_value(cs, i)?;
                m.insert(k, v);
                skip_ws(cs, i);
                if *i < cs.len() && cs[*i] == ',' {
                    *i += 1;
                }
            }
            Ok(J::Obj(m))
        }
        '[' => {
            *i += 1;
            let mut a = vec![];
            loop {
                skip_ws(cs, i);
                if *i < cs.len() && cs[*i] == ']' {
                    *i += 1;
                    break;
                }
                a.push(parse_value(cs, i)?);
                skip_ws(cs, i);
                if *i < cs.len() && cs[*i] == ',' {
                    *i += 1;
                }
            }
            Ok(J::Arr(a))
        }
        '"' => {
            *i += 1;
            let mut s = String::new();
            while *i < cs.len() && cs[*i] != '"' {
                if cs[*i] == '\\' {
                    *i += 1;
                    if *i >= cs.len() {
                        return Err("bad escape".into());
                    }
                    match cs[*i] {
                        'n' => s.push('\n'),
                        'r' => s.push('\r'),
                        't' => s.push('\t'),
                        'b' => s.push('\u{8}'),
                        'f' => s.push('\u{c}'),
                        '/' => s.push('/'),
                        '\\' => s.push('\\'),
                        '"' => s.push('"'),
                        'u' => {
                            let hex: String = cs[*i + 1..(*i + 5).min(cs.len())].iter().collect();
                            let mut code = u32::from_str_radix(&hex, 16).map_err(|e| e.to_string())?;
                            *i += 4;
                            // surrogate pair
                            if (0xD800..0xDC00).contains(&code)
                                && *i + 6 < cs.len()
                                && cs[*i + 1] == '\\'
                                && cs[*i + 2] == 'u'
                            {
                                let hex2: String = cs[*i + 3..*i + 7].iter().collect();
                                let lo = u32::from_str_radix(&hex2, 16).map_err(|e| e.to_string())?;
                                code = 0x10000 + ((code - 0xD800) << 10) + (lo - 0xDC00);
                                *i += 6;
                            }
                            s.push(char::from_u32(code).unwrap_or('\u{fffd}'));
                        }
                        c => return Err(format!("bad escape \\{}", c)),
                    }
                    *i += 1;
                } else {
                    s.push(cs[*i]);
                    *i += 1;
                }
            }
            *i += 1;
            Ok(J::Str(s))
        }
        't' if cs[*i..].starts_with(&['t', 'r', 'u', 'e']) => {
            *i += 4;
            Ok(J::Bool(true))
        }
        'f' if cs[*i..].starts_with(&['f', 'a', 'l', 's', 'e']) => {
            *i += 5;
            Ok(J::Bool(false))
        }
        'n' if cs[*i..].starts_with(&['n', 'u', 'l', 'l']) => {
            *i += 4;
            Ok(J::Null)
        }
        _ => {
            let start = *i;
            while *i < cs.len() && (cs[*i].is_ascii_digit() || "+-.eE".contains(cs[*i])) {
                *i += 1;
            }
            let t: String = cs[start..*i].iter().collect();
            if let Ok(n) = t.parse::<i128>() {
                Ok(J::Int(n))
            } else {
                t.parse::<f64>().map(J::Num).map_err(|e| format!("{e}: {t:?}"))
            }
        }
    }
}

impl J {
    pub fn get(&self, k: &str) -> Option<&J> {
        match self {
            J::Obj(m) => m.get(k),
            _ => None,
        }
    }
    pub fn as_str(&self) -> Option<&str> {
        match self {
            J::Str(s) => Some(s),
            _ => None,
        }
    }
    pub fn as_arr(&self) -> Option<&Vec<J>> {
        match self {
            J::Arr(a) => Some(a),
            _ => None,
        }
    }
    pub fn as_i128(&self) -> Option<i128> {
        match self {
            J::Int(i) => Some(*i),
            _ => None,
        }
    }
}
