//! Independent surface renderer: turns a description into the *token list* of a format, using the
//! keyword table read from the library's enum format instance. Used for the spacing monitor (C09),
//! for derived copulas / sugar (C10, C03) and as a cross-check of the library formatter.
//!
//! An atom (prefix + name), a number (with sign) and a keyword are each ONE token; whitespace may
//! be inserted only between tokens.

use crate::desc::*;
use crate::names::Fmt;
use crate::rng::Rng;

/// sugar options used while rendering a description
#[derive(Clone, Debug, Default)]
pub struct Sugar {
    /// write `<{S} --> P>` as `<S {-- P>` etc. wherever the shape allows (decided per node by `pick`)
    pub derived_copulas: bool,
    /// write `<A </> B>` as `<B <\> A>`
    pub retrospective: bool,
    /// interval `7` written with `pad` leading zeros
    pub interval_pad: usize,
    /// text appended to the placeholder prefix (`_x`, `_123`)
    pub placeholder_suffix: String,
    /// choose per opportunity (true = use the sugar); None = always
    pub coin: Option<u64>,
    /// spell the sugar C10 owns (derived copulas, retrospective equivalence, image connecters,
    /// placeholder and interval prefixes) with the harness's own copy of the documented vocabulary
    /// (`PINNED`) instead of the strings read from the library's format table
    pub pinned: bool,
}

/// The spelling of the surface sugar as published (README grammar for ASCII; for LaTeX and Han (漢) the
/// crate's format tables and sample strings at the pinned commit - there is no other document),
/// pinned here so that the meaning of `{--`, `--]`, ... is stated
/// independently of the table the parsers look them up in.
pub struct Pinned {
    pub instance: &'static str,
    pub property: &'static str,
    pub instance_property: &'static str,
    pub equivalence_retrospective: &'static str,
    pub image_extension: &'static str,
    pub image_intension: &'static str,
    pub placeholder: &'static str,
    pub interval: &'static str,
}

pub fn pinned(f: Fmt) -> &'static Pinned {
    match f {
        Fmt::Ascii => &Pinned {
            instance: "{--",
            property: "--]",
            instance_property: "{-]",
            equivalence_retrospective: r"<\>",
            image_extension: "/",
            image_intension: r"\",
            placeholder: "_",
            interval: "+",
        },
        Fmt::Latex => &Pinned {
            instance: r"\circ\!\!\!\rightarrow{}",
            property: r"\rightarrow\!\!\!\circ{}",
            instance_property: r"\circ\!\!\!\rightarrow\!\!\!\circ{}",
            equivalence_retrospective: r"\backslash\!\!\!\Leftrightarrow{}",
            image_extension: "/",
            image_intension: r"\backslash{}",
            placeholder: r"\diamond{}",
            interval: "+",
        },
        Fmt::Han => &Pinned {
            instance: "为",
            property: "有",
            instance_property: "具有",
            equivalence_retrospective: "曾同",
            image_extension: "外像",
            image_intension: "内像",
            placeholder: "某",
            interval: "间隔",
        },
    }
}

impl Sugar {
    fn take(&mut self) -> bool {
        match &mut self.coin {
            None => true,
            Some(state) => {
                // xorshift
                let mut x = *state | 1;
                x ^= x << 13;
                x ^= x >> 7;
                x ^= x << 17;
                *state = x;
                x & 1 == 0
            }
        }
    }
}

fn connecter(f: Fmt, k: Kind) -> &'static str {
    let c = &f.e().compound;
    match k {
        Kind::IntExt => c.connecter_intersection_extension,
        Kind::IntInt => c.connecter_intersection_intension,
        Kind::DiffExt => c.connecter_difference_extension,
        Kind::DiffInt => c.connecter_difference_intension,
        Kind::Product => c.connecter_product,
        Kind::ImgExt => c.connecter_image_extension,
        Kind::ImgInt => c.connecter_image_intension,
        Kind::Conj => c.connecter_conjunction,
        Kind::Disj => c.connecter_disjunction,
        Kind::Neg => c.connecter_negation,
        Kind::ConjSeq => c.connecter_conjunction_sequential,
        Kind::ConjPar => c.connecter_conjunction_parallel,
        _ => unreachable!("not a connecter kind"),
    }
}

fn copula(f: Fmt, k: Kind) -> &'static str {
    let s = &f.e().statement;
    match k {
        Kind::Inh => s.copula_inheritance,
        Kind::Sim => s.copula_similarity,
        Kind::Impl => s.copula_implication,
        Kind::Equiv => s.copula_equivalence,
        Kind::ImplPred => s.copula_implication_predictive,
        Kind::ImplConc => s.copula_implication_concurrent,
        Kind::ImplRetro => s.copula_implication_retrospective,
        Kind::EquivPred => s.copula_equivalence_predictive,
        Kind::EquivConc => s.copula_equivalence_concurrent,
        _ => unreachable!("not a copula kind"),
    }
}

fn prefix(f: Fmt, k: Kind) -> &'static str {
    let a = &f.e().atom;
    match k {
        Kind::Word => a.prefix_word,
        Kind::Placeholder => a.prefix_placeholder,
        Kind::IVar => a.prefix_variable_independent,
        Kind::DVar => a.prefix_variable_dependent,
        Kind::QVar => a.prefix_variable_query,
        Kind::Interval => a.prefix_interval,
        Kind::Operator => a.prefix_operator,
        _ => unreachable!("not an atom kind"),
    }
}

pub fn term_tokens(f: Fmt, t: &TD, sugar: &mut Sugar, out: &mut Vec<String>) {
    let e = f.e();
    match t.k.shape() {
        Shape::AtomNamed => out.push(format!("{}{}", prefix(f, t.k), t.name)),
        Shape::AtomPlaceholder => out.push(format!("{}{}", if sugar.pinned { pinned(f).placeholder } else { prefix(f, t.k) }, sugar.placeholder_suffix)),
        Shape::AtomInterval => out.push(format!("{}{}{}", if sugar.pinned { pinned(f).interval } else { prefix(f, t.k) }, "0".repeat(sugar.interval_pad), t.num)),
        Shape::SetN if matches!(t.k, Kind::SetExt | Kind::SetInt) => {
            let (l, r) = if t.k == Kind::SetExt { e.compound.brackets_set_extension } else { e.compound.brackets_set_intension };
            out.push(l.to_string());
            for (i, k) in t.kids.iter().enumerate() {
                if i > 0 {
                    out.push(e.compound.separator.to_string());
                }
                term_tokens(f, k, sugar, out);
            }
            out.push(r.to_string());
        }
        Shape::Unary | Shape::VecN | Shape::SetN | Shape::Image | Shape::BinOrd if t.k.cat() == Cat::Compound => {
            out.push(e.compound.brackets.0.to_string());
            out.push(match (sugar.pinned, t.k) {
                (true, Kind::ImgExt) => pinned(f).image_extension.to_string(),
                (true, Kind::ImgInt) => pinned(f).image_intension.to_string(),
                _ => connecter(f, t.k).to_string(),
            });
            let mut items: Vec<Option<&TD>> = t.kids.iter().map(Some).collect();
            if t.k.shape() == Shape::Image {
                items.insert(t.num, None);
            }
            for it in items {
                out.push(e.compound.separator.to_string());
                match it {
                    Some(k) => term_tokens(f, k, sugar, out),
                    None => out.push(format!("{}{}", if sugar.pinned { pinned(f).placeholder } else { e.atom.prefix_placeholder }, sugar.placeholder_suffix)),
                }
            }
            out.push(e.compound.brackets.1.to_string());
        }
        _ => {
            // statements
            let s = &e.statement;
            let (mut a, mut b) = (&t.kids[0], &t.kids[1]);
            let mut cop = copula(f, t.k);
            if t.k == Kind::Inh && sugar.derived_copulas {
                let ext1 = a.k == Kind::SetExt && a.kids.len() == 1;
                let int1 = b.k == Kind::SetInt && b.kids.len() == 1;
                if ext1 && int1 && sugar.take() {
                    cop = if sugar.pinned { pinned(f).instance_property } else { s.copula_instance_property };
                    a = &a.kids[0];
                    b = &b.kids[0];
                } else if ext1 && sugar.take() {
                    cop = if sugar.pinned { pinned(f).instance } else { s.copula_instance };
                    a = &a.kids[0];
                } else if int1 && sugar.take() {
                    cop = if sugar.pinned { pinned(f).property } else { s.copula_property };
                    b = &b.kids[0];
                }
            } else if t.k == Kind::EquivPred && sugar.retrospective && sugar.take() {
                cop = if sugar.pinned { pinned(f).equivalence_retrospective } else { s.copula_equivalence_retrospective };
                std::mem::swap(&mut a, &mut b);
            }
            out.push(s.brackets.0.to_string());
            term_tokens(f, a, sugar, out);
            out.push(cop.to_string());
            term_tokens(f, b, sugar, out);
            out.push(s.brackets.1.to_string());
        }
    }
}

fn float_text(x: f64) -> String {
    // shortest round-trip decimal, never scientific notation (the parsers accept digits and '.' only)
    format!("{}", x)
}

pub fn stamp_tokens(f: Fmt, st: StampD, out: &mut Vec<String>) {
    let s = &f.e().sentence;
    if st == StampD::Eternal {
        return;
    }
    if !s.stamp_brackets.0.is_empty() {
        out.push(s.stamp_brackets.0.to_string());
    }
    match st {
        StampD::Past => out.push(s.stamp_past.to_string()),
        StampD::Present => out.push(s.stamp_present.to_string()),
        StampD::Future => out.push(s.stamp_future.to_string()),
        StampD::Fixed(t) => {
            out.push(s.stamp_fixed.to_string());
            out.push(t.to_string());
        }
        StampD::Eternal => {}
    }
    if !s.stamp_brackets.1.is_empty() {
        out.push(s.stamp_brackets.1.to_string());
    }
}

pub fn floats_tokens(l: &str, r: &str, sep: &str, v: &[f64], out: &mut Vec<String>) {
    out.push(l.to_string());
    for (i, x) in v.iter().enumerate() {
        if i > 0 {
            out.push(sep.to_string());
        }
        out.push(float_text(*x));
    }
    out.push(r.to_string());
}

pub fn sentence_tokens(f: Fmt, s: &SD, sugar: &mut Sugar, out: &mut Vec<String>) {
    let e = f.e();
    term_tokens(f, &s.term, sugar, out);
    out.push(
        match s.punct {
            PunctD::Judgement => e.sentence.punctuation_judgement,
            PunctD::Goal => e.sentence.punctuation_goal,
            PunctD::Question => e.sentence.punctuation_question,
            PunctD::Quest => e.sentence.punctuation_quest,
        }
        .to_string(),
    );
    stamp_tokens(f, s.stamp, out);
    if s.punct.has_truth() && !s.truth.is_empty() {
        floats_tokens(e.sentence.truth_brackets.0, e.sentence.truth_brackets.1, e.sentence.truth_separator, &s.truth, out);
    }
}

pub fn tokens(f: Fmt, nd: &ND, sugar: &mut Sugar) -> Vec<String> {
    let e = f.e();
    let mut out = vec![];
    match nd {
        ND::Term(t) => term_tokens(f, t, sugar, &mut out),
        ND::Sent(s) => sentence_tokens(f, s, sugar, &mut out),
        ND::Task(k) => {
            floats_tokens(e.task.budget_brackets.0, e.task.budget_brackets.1, e.task.budget_separator, &k.budget, &mut out);
            sentence_tokens(f, &k.sent, sugar, &mut out);
        }
    }
    out
}

/// join tokens with `spacing[i]` copies of `ws` before token i (spacing has len tokens+1: the last
/// entry is the trailing run)
pub fn render(tokens: &[String], spacing: &[usize], ws: &str) -> String {
    let mut s = String::new();
    for (i, t) in tokens.iter().enumerate() {
        for _ in 0..spacing[i] {
            s.push_str(ws);
        }
        s.push_str(t);
    }
    for _ in 0..spacing[tokens.len()] {
        s.push_str(ws);
    }
    s
}

/// the library formatter's default spacing, reproduced from the token list: used as a cross-check
/// (`render_default(tokens) == format_F(v)`); a disagreement is a harness inconsistency, not a
/// property violation
pub fn render_compact(tokens: &[String]) -> String {
    tokens.concat()
}

pub fn random_spacing(n_tokens: usize, rng: &mut Rng, max: usize) -> Vec<usize> {
    let mut v: Vec<usize> = (0..=n_tokens).map(|_| rng.below(max + 1)).collect();
    // leading / trailing runs less often
    if !rng.chance(1, 4) {
        v[0] = 0;
    }
    if !rng.chance(1, 4) {
        v[n_tokens] = 0;
    }
    v
}
